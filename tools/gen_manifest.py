#!/usr/bin/env python3
"""Writes MANIFEST.json from the table below (kept in one place so it stays valid)."""
import json, os, subprocess
V = os.path.dirname(os.path.dirname(os.path.abspath(__file__)))

CHECKS = {
    "C03": dict(
        text="Coq theorems over executable mirrors of Metainfo::piece_length / file_piece_ranges and Extractor::extract_files "
             "(piece store as a partial function from hashes, File::open / read_exact failures and index panics as explicit "
             "outcomes): for every geometry whose piece count matches its total length the per-piece lengths partition the "
             "content exactly (C03_partition), and extraction from a store of those pieces yields, for every listed file in "
             "order, exactly the bytes at its offset, with exactly its declared length (C03_extract, C03_lengths) - any number "
             "of files, zero-length files, files inside one piece, any alignment; proved by induction over the file list and "
             "the piece loop with slice-concatenation lemmas. The pinned extractor is refuted (C03_pinned_refuted); the defect "
             "was found by the check and repaired by a fix: commit. Tie: the real Extractor runs on a piece store built from "
             "the content; every output file is read back and compared with the model and with the independent span oracle.",
        note="Not modelled: real file-system errors, concurrent modification, duplicate output paths (later write wins). "
             "Trusted: Coq kernel, correspondence harness, hand-written model. No axioms.",
        technique="Coq proof (induction over files and pieces, slice algebra) + differential correspondence on the real extractor",
        design="2/C03"),
    "C04": dict(
        text="Coq theorems over the lexical path model (PathBuf::join, Path::components, parent chain) and the Metainfo model: "
             "every accepted document has a relative name and relative file paths without '..' components "
             "(C04_accepted_safe), join keeps the components of the directory in front (C04_join_components), so every path "
             "the extractor creates, and every ancestor create_dir_all makes, never climbs above the download directory at "
             "any prefix (C04_inside, C04_ancestors_safe). The pinned code is refuted (C04_pinned_refuted); the defect was "
             "found by the check (files written above cwd) and repaired by a fix: commit. Tie: the real extractor runs five "
             "levels below a canary root with hostile names/paths; everything created is listed; oracle = containment.",
        note="Partial: lexical Unix path model; symlinks already present in the download directory and non-Unix path syntax "
             "are not modelled. No axioms.",
        technique="Coq proof (induction over path components) + differential correspondence with file-system canary oracle",
        design="2/C04"),
    "C05": dict(
        text="Executable Gallina mirrors of DeepFinder::find_first and Metainfo::from_bencode, and an independent "
             "span-splitting specification (InfoSpec.info_span) of `the exact bytes of the top-level info value`. Proved: "
             "what is hashed is exactly find_first's answer (C05_hash_input) and the full statement is refuted by three "
             "witness theorems, one per known-finding class (nested key found first, duplicate info key, truncated tail). "
             "Outside those classes the property is decided by the correspondence: implementation's find_first bytes = "
             "model = independent span, and hash = SHA-1 of those bytes, on a torrent grammar with extras.",
        note="Partial: no general Coq theorem yet that find_first equals the span outside the known classes (needs the "
             "re-serialisation identity lemma). SHA-1 uninterpreted. Unmodelled: scanner state after an ignored error "
             "(unreachable for accepted documents). No axioms.",
        technique="Coq model + refutation theorems (vm_compute witnesses) + differential correspondence with independent span oracle",
        design="2/C05"),
    "C07": dict(
        text="Machine-checked Coq theorems over an executable Gallina mirror of every Serializer::data, Frame::parse and "
             "Bitfield::{from_vec,to_vec}: layout equals the independently written BEP3 relation, parse(encode m ++ rest) "
             "= (m, |encode m|) for all field values in range, bit i <-> bit (7 - i mod 8) of byte i/8 in both directions, "
             "for all sizes. Constants are regenerated from the source each run; the hand-written model is tied to the "
             "code by differential execution with the spec oracle applied to the implementation's output.",
        note="Trusted: Coq kernel; gen_consts.py; the correspondence (generators, harness, in-Coq comparison); the model is "
             "hand-written (modelled, not verified Rust). No axioms.",
        technique="Coq proof (induction, finite sweeps by vm_compute) + differential correspondence model vs code",
        design="2/C07"),
    "C15": dict(
        text="Coq theorems: decode(encode vs) = vs for all well-formed values (full i64, binary strings, arbitrary nesting, "
             "prefix keys), encode v is in the independent inductive canonical grammar (ascending keys, shortest integers "
             "and length prefixes), and every canonical document decodes and re-encodes to itself byte for byte. Proved "
             "by nested induction over values / mutual induction over the grammar, with the decimal print/parse inverse "
             "lemmas proved from scratch. Tie: differential runs of BEncoder/BDecoder vs the model with an independent "
             "canonical-form recogniser as oracle on the implementation's bytes.",
        note="Not modelled: native stack depth. Trusted: Coq kernel, correspondence harness, hand-written model. No axioms.",
        technique="Coq proof (nested/mutual induction) + differential correspondence",
        design="2/C15"),
    "C16": dict(
        text="Coq theorems over an executable mirror of BDecoder (iterator-on-suffix, fuelled, Panic/OutOfFuel as explicit "
             "outcomes): totality for every byte string, completeness w.r.t. an independent inductive grammar, the strict "
             "decoder is exactly the grammar, and soundness of the code's decoder outside the known-finding class "
             "`unterminated-container` (the full statement is refuted by 'li1e', proved as C16_refuted_unterminated). "
             "Tie: exhaustive comparison over the alphabet '012:-ilde' up to length 5 (quick) / 7 (thorough) plus "
             "mutated documents, oracle = the proved-equivalent strict recogniser applied to the implementation's answer.",
        note="Partial: soundness only outside the recorded known finding. Not modelled: native stack exhaustion on deep "
             "nesting. Trusted: Coq kernel, correspondence harness, hand-written model. No axioms.",
        technique="Coq proof (mutual induction over grammar / fuel) + exhaustive small-scope and random differential correspondence",
        design="2/C16"),
    "C17": dict(
        text="Coq theorems over the Metainfo model (built on the proved bencode decoder model): parsing never panics for "
             "any byte string; a successful parse yields exactly the fields one top-level dictionary states (FieldsOf); "
             "every accessor (piece, piece_length, total_length, file_piece_ranges) is panic-free for every valid index "
             "with overflow checks on and off. Two genuine defects found by the check were repaired by fix: commits "
             "(piece length 0, overflowing total). create_file -> parse is tied by correspondence with SHA-1 of every "
             "256 KiB chunk recomputed by the driver.",
        note="Partial: the create->parse round trip has no Coq proof. UTF-8 validity and decimal parsing are hand models "
             "of std, tied by correspondence. No axioms.",
        technique="Coq proof (invariants over folds, case analysis) + differential correspondence",
        design="2/C17"),
    "C19": dict(
        text="Reply half: Coq theorems over an executable mirror of TrackerResp::from_bencode / peers() built on the proved "
             "bencode decoder model: parsing never panics for any body; a successful parse yields, in listed order, exactly "
             "the well-formed entries (characterised by peer_of_spec) of the peers list of a top-level dictionary without a "
             "failure reason; any string failure reason (valid UTF-8 or not) makes the reply a failure. One genuine defect "
             "found by the check was repaired by a fix: commit (non-UTF-8 failure reason read as success). Tie: differential "
             "runs on a reply grammar + mutations, independent oracle on the implementation's answer.",
        note="Partial: the fault-sequence half (tracker task / command channel / manager blocking) is being built "
             "(Tracker.v); HTTP transport and reqwest are not modelled. No axioms.",
        technique="Coq proof (case analysis over the decoder model) + differential correspondence",
        design="2/C19"),
}

NOT_APPLICABLE = {}

ALL = ["C%02d" % i for i in range(1, 21)]
PENDING_REASON = "not claimed yet: model, theorems and correspondence for this property are still being built (see DESIGN.md section 6)"


def main():
    commits = subprocess.run(["git", "-C", "/repo", "log", "--format=%h %s", "--grep=^verif hooks"],
                             stdout=subprocess.PIPE).stdout.decode().strip().split("\n")
    m = {
        "version": 1,
        "setup_cmd": "./setup.sh",
        "hooks": {
            "guard": "cargo feature `verif` (Cargo.toml [features] verif = [])",
            "enable": "the harness crate depends on rdest with features = [\"verif\"] (path = /repo); cargo build --features verif",
            "baseline_off_cmd": "cd /repo && cargo test --workspace --no-fail-fast --offline",
            "source_commits": [c for c in commits if c],
            "add_only": True,
        },
        "engines": [{"name": "coq-proof+correspondence", "path": "coq/ tools/ harness/",
                     "serves_properties": sorted(CHECKS),
                     "kind_free_text": "Coq 8.16 development (models, specs, proofs), constants translator, Rust differential harness, in-Coq evaluation of model and oracle"}],
        "checks": [],
        "notes": "See DESIGN.md. Known findings: known_findings.json.",
        "not_applicable": [],
    }
    for pid in sorted(CHECKS):
        c = CHECKS[pid]
        m["checks"].append({
            "property_id": pid,
            "quick_cmd": "./check %s --tier quick" % pid,
            "thorough_cmd": "./check %s --tier thorough" % pid,
            "evidence_file": "/verif/evidence/%s.json" % pid,
            "replay_cmd_template": "./check %s --replay {path}" % pid,
            "engine": "coq-proof+correspondence",
            "level_claimed": {"category": "proof", "text": c["text"], "design_ref": c["design"]},
            "level_note": c["note"],
            "technique": c["technique"],
        })
    for pid in ALL:
        if pid not in CHECKS:
            m["not_applicable"].append({"property_id": pid, "reason": NOT_APPLICABLE.get(pid, PENDING_REASON)})
    json.dump(m, open(os.path.join(V, "MANIFEST.json"), "w"), indent=1)
    print("MANIFEST.json: %d checks, %d not claimed" % (len(m["checks"]), len(m["not_applicable"])))


if __name__ == "__main__":
    main()
