(* Correspondence for C06 (stream decoding): chunks written to the real Connection one at a time,
   recv_frame called until it is pending after each. *)
From Rdest Require Import Base Consts Wire Conn.
Open Scope N_scope.

(* how recv_frame left off after a chunk: pending with n bytes buffered, closed, error, crash *)
Inductive term := TPending (n : N) | TClosed | TErr | TCrash.
Inductive case := CConn (chunks : list bytes) (obs : list (list msg * term)).   (* [] chunk = end of stream *)

Definition term_eqb (a b : term) : bool :=
  match a, b with
  | TPending x, TPending y => x =? y
  | TClosed, TClosed | TErr, TErr | TCrash, TCrash => true
  | _, _ => false
  end.

(* model: feed the chunks one at a time; after each, drain *)
Fixpoint model_run (buf : bytes) (chunks : list bytes) (obs : list (list msg * term)) : bool :=
  match chunks, obs with
  | [], [] => true
  | ch :: cs, (ms, t) :: os =>
      let '(got, r, buf') := drain (S (length buf + length ch + 2)) buf [ch] [] in
      list_eqb msg_eqb got ms &&
      match r, t with
      | RPending, TPending n => (n =? len buf') && model_run buf' cs os
      | RClosed, TClosed | RErr, TErr | RCrash, TCrash => match os with [] => true | _ => false end
      | _, _ => false
      end
  | _, _ => false
  end.

(* oracle: after every prefix of the stream, exactly the messages of that prefix have been delivered
   (independently of the cuts), the remainder is what is buffered, nothing crashes; a malformed
   length / oversized frame / truncated stream ends the connection *)
Fixpoint oracle_run (seen : bytes) (delivered : list msg) (chunks : list bytes) (obs : list (list msg * term)) : bool :=
  match chunks, obs with
  | [], [] => true
  | ch :: cs, (ms, t) :: os =>
      let eof := match ch with [] => true | _ => false end in
      let seen' := seen ++ ch in
      let delivered' := delivered ++ ms in
      let '(want, sr, rest) := spec_stream seen' in
      list_eqb msg_eqb delivered' want &&
      match sr with
      | SBad => match t with TErr => match os with [] => true | _ => false end | _ => false end
      | SMore =>
          if eof then match t, rest with
                      | TClosed, [] => true
                      | TErr, _ :: _ => true
                      | _, _ => false
                      end
          else match t with
               | TPending n => (n =? len rest) && (n <? 4 + 65536) && oracle_run seen' delivered' cs os
               | _ => false
               end
      end
  | _, _ => false
  end.

(* an independent reading of one family of streams, not built from the model's parse_frame: a sequence of complete
   frames (4-byte length L with 1 <= L <= 65536, then L bytes) none of whose ids is one of the nine BEP3 ids 0..8 (a
   length of at most 65536 cannot begin like a handshake, whose first byte is 19).  Such messages "with unknown ids are skipped": nothing is
   delivered, nothing stays buffered, the connection stays up *)
Fixpoint all_unknown_frames (fuel : nat) (s : bytes) : bool :=
  match fuel with
  | O => false
  | S f =>
      match s with
      | [] => true
      | a :: b :: c :: d :: id :: _ =>
          let L := ((a * 256 + b) * 256 + c) * 256 + d in       (* nested ifs: vm_compute is call-by-value *)
          if (1 <=? L) && (L <=? 65536) && negb (id <=? 8) then
            if 4 + L <=? len s then all_unknown_frames f (skipn (N.to_nat (4 + L)) s) else false
          else false
      | _ => false
      end
  end.
Fixpoint unknown_oracle (seen : bytes) (chunks : list bytes) (obs : list (list msg * term)) : bool :=
  match chunks, obs with
  | ch :: cs, (ms, t) :: os =>
      let seen' := seen ++ ch in
      (if all_unknown_frames (S (length seen')) seen'
       then match ch, ms, t with
            | [], [], _ => true
            | _ :: _, [], TPending 0 => true
            | _, _, _ => false
            end
       else true) &&
      unknown_oracle seen' cs os
  | _, _ => true
  end.

Definition code (c : case) : N :=
  match c with
  | CConn chunks obs =>
      (if model_run [] chunks obs then 0 else 1) +
      (if oracle_run [] [] chunks obs && unknown_oracle [] chunks obs then 0 else 2)
  end.
Definition codes (cs : list case) : list N := map code cs.
