"""C10 — block requests tile each assigned piece exactly once."""
from hndbase import *


def download_scenario(rng, plens, seed, outgoing):
    """handshake, bitfield, unchoke -> assignment; blocks answered in order / reversed / duplicated /
    withheld / foreign / corrupt; piece done -> next piece or stop"""
    n = len(plens)
    ev = []
    if outgoing:
        ev.append(ev_start(init="0" * n))
        ev.append(ev_msg(m_hs()))
    else:
        ev.append(ev_msg(m_hs(), init="0" * n))
    ev.append(ev_msg(m_bitfield([True] * n), bf="11"))
    sim = Sim(plens, seed)
    order = list(range(n))
    rng.shuffle(order)
    first = order.pop()
    ev.append(ev_msg(UNCHOKE, unch=("INTREQ:%d:%d" % (first, plens[first]))))
    sim.assign(first)
    sim.choked = False
    steps = 0
    while sim.idx is not None and steps < 40:
        steps += 1
        r = rng.random()
        if not sim.requested:
            break
        if r < 0.08:        # a block nobody asked for (other piece / wrong offset / wrong size)
            i = rng.randrange(n)
            ev.append(ev_msg(m_piece(i, rng.choice([0, 1, BLOCK, 5 * BLOCK]), bytes(rng.randrange(1, 9)))))
            continue
        if r < 0.11:        # a block of ANOTHER piece whose offset and length match an outstanding request of this one
            b, l = sim.requested[rng.randrange(len(sim.requested))]
            other = (sim.idx + 1 + rng.randrange(max(n, 2) - 1)) % max(n, 2) if max(n, 2) > 1 else 1
            if other == sim.idx:
                other = (other + 1) % max(n, 2)
            ev.append(ev_msg(m_piece(other, b, bytes([rng.randrange(256)]) * l)))
            continue
        if r < 0.14 and steps > 1:   # duplicate of something already delivered (offset 0 of the piece)
            b, l = tiling(plens[sim.idx])[0]
            if (b, l) not in sim.requested:
                ev.append(ev_msg(m_piece(sim.idx, b, prand(seed + sim.idx, plens[sim.idx])[b:b + l], sim.block_term(sim.idx, b, l))))
                continue
        if r < 0.18:
            ev.append(ev_msg(KEEPALIVE))
            continue
        if r < 0.24 and steps > 1:
            # another connection completes the very piece this one is fetching (end game): the manager broadcasts SendHave,
            # the task cancels its outstanding requests and reports PieceCancel; the manager assigns another piece (whose
            # requests must tile it from the start and keep flowing) or nothing
            if order and rng.random() < 0.8:
                j = order.pop()
                ev.append(ev_bhave(sim.idx, cancel="REQ:%d:%d" % (j, plens[j])))
                sim.assign(j)
                continue
            ev.append(ev_bhave(sim.idx, cancel=rng.choice(["IGN", "NOTINT"])))
            sim.idx = None
            break
        if r < 0.28 and steps > 1:
            # the peer chokes us in the middle of the piece (dropping our pending requests) and unchokes again; the
            # manager assigns the same piece again or another one: the requests must tile the new assignment afresh
            ev.append(ev_msg(CHOKE))
            if rng.random() < 0.3:
                ev.append(ev_msg(sim.answer(0)))       # a block still in flight when the choke was sent
                if sim.accepted(0):
                    break
            j = sim.idx if (rng.random() < 0.6 or not order) else order.pop()
            ev.append(ev_msg(UNCHOKE, unch=("%s:%d:%d" % (rng.choice(["REQ", "INTREQ"]), j, plens[j]))))
            sim.assign(j)
            continue
        which = rng.randrange(len(sim.requested)) if rng.random() < 0.5 else 0
        corrupt = rng.random() < 0.04
        m = sim.answer(which, corrupt)
        will_finish = (not sim.left) and len(sim.requested) == 1
        pol = {}
        if will_finish:
            if order and rng.random() < 0.7:
                nxt = order.pop()
                pol["done"] = "REQ:%d:%d" % (nxt, plens[nxt])
            else:
                nxt = None
                pol["done"] = rng.choice(["IGN", "NOTINT", "KILL"])
        ev.append(ev_msg(m, **pol))
        done = sim.accepted(which)
        if corrupt and done:
            break           # hash mismatch: the task ends
        if done:
            if nxt is None:
                sim.idx = None
            else:
                sim.assign(nxt)
    if rng.random() < 0.3:
        ev.append(ev_wait(120000))
    return ev[:3] + split_events(rng, ev[3:], 0.1)


class C10(HndBase):
    id = "C10"
    proof_target = "Props/C10.vo"
    theorems = ["C10_tiling", "C10_tiling_sum", "C10_tiling_unique", "C10_assignment", "C10_next", "C10_assignment_invariant", "C10_answer"]
    coq_header = ("From Rdest Require Import Base Consts Wire Manager Handler Corr.Hnd.\nOpen Scope N_scope.\n"
                  "Definition codes := codes10.\n")
    rule = ("download histories on the real PeerHandler (in-memory pipe, harness as remote peer and manager): piece lengths "
            "below, equal to and not a multiple of 16 KiB (1, 16383, 16384, 16385, 32768, 40000, 65536+7, short last piece), "
            "blocks answered in order, out of order, duplicated, withheld, for other pieces/offsets/sizes, corrupted; "
            "several pieces in a row. Every Request frame the task writes is decoded and checked against the tiling of the "
            "assigned piece. Non-trivial: histories in which at least one piece is assigned; distinct lines.")
    statement_status = "see Props/C10.v"

    def corpus(self):
        import random
        out = []
        for k, pl in enumerate([[1], [16383], [16384], [16385], [32768], [40000, 7], [65543]]):
            out.append(self.case(Scenario(False, pl, 100 + k, download_scenario(random.Random(k), pl, 100 + k, False), "corpus")))
        return out

    def gen(self, rng, tier):
        k = {"quick": 120, "thorough": 2500, "search": 600}.get(tier, 120)
        cases = []
        for _ in range(k):
            n = rng.choice([1, 2, 3])
            plens = [rng.choice([1, 5, 16383, 16384, 16385, 20000, 32768, 32769, 40000, 49152]) for _ in range(n)]
            seed = rng.randrange(1, 10 ** 6)
            outgoing = rng.random() < 0.5
            cases.append(self.case(Scenario(outgoing, plens, seed, download_scenario(rng, plens, seed, outgoing), "download")))
        return cases


PROP = C10()
