(* PieceProofs.v — an assignment completes under an honest peer (progress ingredient of C02; C10 and C01 meet).

   After the manager assigns piece i (content `content`, whose hash is the torrent's hash for i), the task has asked
   for the first blocks of the tiling.  If the peer answers the outstanding requests in order with the right bytes,
   then for EVERY piece length: every answer is accepted, each is followed by the next request while blocks remain,
   and at the last answer the assembled buffer is exactly `content`, it is written under the piece's hash and
   PieceDone is reported -- nothing else is written. *)
From Rdest Require Import Base BaseProofs Consts Wire Manager Handler HandlerProofs ExtractProofs PairProofs TraceProofs.
From Coq Require Import ZifyBool ZifyN ZifyNat.
Open Scope N_scope.

Section Piece.
  Variable sha1 : bytes -> bytes.
  Variable cf : hconf.
  Variable disk : bytes -> option bytes.
  Variable ovf : bool.
  Variable i : N.
  Variable content : bytes.
  Hypothesis Hhash : bytes_eqb (sha1 content) (hash_of cf i) = true.
  Notation L := (len content).

  (* the buffer after the first b bytes have arrived *)
  Definition buff_at (b : N) : bytes := slice content 0 b ++ repeat 0 (N.to_nat (L - b)).

  Lemma len_buff_at b : b <= L -> len (buff_at b) = L.
  Proof.
    intros H. unfold buff_at. rewrite len_app, len_slice.
    assert (E : len (repeat (0:N) (N.to_nat (L - b))) = L - b) by (unfold len; rewrite repeat_length; lia).
    rewrite E. lia.
  Qed.

  Lemma put_block_at b l : b + l <= L -> put_block (buff_at b) b (slice content b l) = buff_at (b + l).
  Proof.
    intros H. unfold put_block, buff_at.
    assert (L1 : length (slice content 0 b) = N.to_nat b) by (pose proof (len_slice content 0 b) as E; unfold len in *; lia).
    assert (L2 : len (slice content b l) = l) by (rewrite len_slice; lia).
    rewrite firstn_app, L1, Nat.sub_diag, firstn_all2 by lia. cbn [firstn]. rewrite app_nil_r.
    rewrite L2. rewrite skipn_app, L1, skipn_all2 by lia. cbn [app].
    replace (N.to_nat (b + l) - N.to_nat b)%nat with (N.to_nat l) by lia.
    assert (SR : forall k n, skipn k (repeat (0:N) n) = repeat 0 (n - k)).
    { induction k as [|k IH]; intros n; [rewrite Nat.sub_0_r; reflexivity|]. destruct n as [|n]; [reflexivity|]. cbn [repeat skipn]. apply IH. }
    rewrite SR. rewrite app_assoc. f_equal.
    - pose proof (slice_slice_app content 0 b l) as E. rewrite N.add_0_l in E. exact E.
    - f_equal. lia.
  Qed.

  Lemma buff_at_full : buff_at L = content.
  Proof. unfold buff_at. rewrite N.sub_diag. cbn [N.to_nat repeat]. rewrite app_nil_r. apply slice_all. lia. Qed.

  (* offsets in a tiling grow *)
  Lemma tiles_offsets b e l : Tiles b e l -> Forall (fun bl => b <= fst bl /\ fst bl + snd bl <= e) l.
  Proof.
    induction 1 as [b|b l e r Hl Hu HT IH Hlast]; [constructor|]. constructor.
    - cbn. destruct (tiles_sum _ _ _ HT) as [S _]. lia.
    - eapply Forall_impl; [|exact IH]. cbn. intros x [A B]. split; lia.
  Qed.

  (* one in-order answer *)
  Definition honest_answer (bl : N * N) : msg := Piece i (fst bl) (slice content (fst bl) (snd bl)).

  Lemma answer_step s r b l rest reply :
    h_hs_done s = true -> h_rx s = Some r -> rx_index r = i -> rx_hash r = hash_of cf i ->
    Tiles b L ((b, l) :: rest) -> rx_requested r ++ rx_left r = (b, l) :: rest -> rx_requested r <> [] ->
    rx_buff r = buff_at b ->
    match rest with
    | [] =>
        hstep sha1 cf disk ovf s (EFrame (honest_answer (b, l))) reply =
        after_piece_finish cf (set_rx (set_ka s 0) None) [AWrite (hash_of cf i) content; ACmd KPieceDone] reply
    | _ =>
        exists r' a, hstep sha1 cf disk ovf s (EFrame (honest_answer (b, l))) reply = HCont (set_rx (set_ka s 0) (Some r')) a /\
                     rx_index r' = i /\ rx_hash r' = hash_of cf i /\ rx_requested r' ++ rx_left r' = rest /\
                     rx_requested r' <> [] /\ rx_buff r' = buff_at (b + l) /\
                     (forall h d, ~ In (AWrite h d) a) /\ ~ In (ACmd KPieceDone) a
    end.
  Proof.
    intros Hd Hrx Hi Hh HT Hsplit Hne Hb.
    revert Hi Hh. inversion HT as [|? ? ? ? Hl Hu HT' Hlast]; subst. intros Hi Hh.
    destruct (rx_requested r) as [|q0 q] eqn:Eq; [congruence|]. cbn [app] in Hsplit. injection Hsplit as -> Hrest.
    assert (Hfit : b + l <= L) by (destruct (tiles_sum _ _ _ HT') as [S _]; lia).
    assert (Lblk : len (slice content b l) = l) by (rewrite len_slice; lia).
    (* the other outstanding requests are for later offsets *)
    assert (Hq : filter (fun bl => negb ((fst bl =? b) && (snd bl =? len (slice content b l)))) ((b, l) :: q) = q).
    { cbn [filter fst snd]. rewrite Lblk, !N.eqb_refl. cbn [andb negb].
      pose proof (tiles_offsets _ _ _ HT') as HO. rewrite <- Hrest in HO. apply Forall_app in HO. destruct HO as [HO _].
      clear - HO Hl. induction q as [|[b2 l2] q IH]; [reflexivity|]. inversion HO as [|? ? [A _] HO']; subst. cbn [filter fst snd] in *.
      replace (b2 =? b) with false by lia. cbn [andb negb]. rewrite IH by exact HO'. reflexivity. }
    cbn [hstep]. unfold handle_frame, honest_answer. cbn [fst snd]. rewrite Hd. cbn [negb andb].
    change (Handler_gate_on_handshake && false && _) with false. cbv iota.
    unfold handle_piece. cbn [set_ka h_rx]. rewrite Hrx.
    assert (Hreq : is_requested r i b (slice content b l) = true).
    { unfold is_requested. rewrite Hi, N.eqb_refl, Eq. cbn [existsb fst snd andb]. rewrite Lblk, !N.eqb_refl. reflexivity. }
    rewrite Hreq. cbn [negb]. rewrite Eq, Hq, Hb, (put_block_at b l Hfit). cbn [rx_left rx_hash rx_index rx_requested rx_buff].
    destruct rest as [|t rest'].
    - (* the last block *)
      apply app_eq_nil in Hrest. destruct Hrest as [-> ->].
      assert (Efull : b + l = L) by (inversion HT'; reflexivity).
      rewrite Efull, buff_at_full, Hh, Hhash. cbn [negb]. reflexivity.
    - destruct (rx_left r) as [|lf lr] eqn:El.
      + (* nothing left to ask for: the remaining requests are outstanding *)
        rewrite app_nil_r in Hrest. subst q. cbn [send_request rx_left].
        eexists _, []. split; [reflexivity|]. cbn [rx_index rx_hash rx_requested rx_left rx_buff].
        repeat split; try assumption; try discriminate; try (rewrite app_nil_r; reflexivity); intros; intro F; exact F.
      + destruct q as [|q1 q'].
        * cbn [app] in Hrest. cbn [send_request rx_left]. destruct lf as [bf lf].
          eexists _, _. split; [reflexivity|]. cbn [rx_index rx_hash rx_requested rx_left rx_buff app].
          split; [exact Hi|]. split; [exact Hh|]. split; [exact Hrest|]. split; [discriminate|]. split; [reflexivity|].
          split; [intros h d [F|[]]; discriminate | intros [F|[]]; discriminate].
        * cbn [send_request rx_left]. destruct lf as [bf lf].
          eexists _, _. split; [reflexivity|]. cbn [rx_index rx_hash rx_requested rx_left rx_buff app].
          split; [exact Hi|]. split; [exact Hh|]. split; [rewrite <- Hrest, <- app_assoc; reflexivity|]. split; [discriminate|]. split; [reflexivity|].
          split; [intros h d [F|[]]; discriminate | intros [F|[]]; discriminate].
  Qed.

  (* all answers, in order: the run and what the last step does *)
  Fixpoint answers (bls : list (N * N)) (last_reply : option reply) : list (event * option reply) :=
    match bls with
    | [] => []
    | [bl] => [(EFrame (honest_answer bl), last_reply)]
    | bl :: rest => (EFrame (honest_answer bl), None) :: answers rest last_reply
    end.

  Definition early (pre : list (N * N)) : list (event * option reply) :=
    map (fun bl => (EFrame (honest_answer bl), @None reply)) pre.

  Theorem assignment_completes : forall bls s r b reply,
    h_hs_done s = true -> h_rx s = Some r -> rx_index r = i -> rx_hash r = hash_of cf i ->
    Tiles b L bls -> bls <> [] -> rx_requested r ++ rx_left r = bls -> rx_requested r <> [] -> rx_buff r = buff_at b ->
    exists s1 pre bl_last, bls = pre ++ [bl_last] /\
      (* all but the last answer are handled without ending the task ... *)
      run sha1 cf disk ovf s (early pre) = Some s1 /\
      (* ... and the last one completes the piece: exactly `content` is written under the piece's hash, then PieceDone *)
      hstep sha1 cf disk ovf s1 (EFrame (honest_answer bl_last)) reply =
        after_piece_finish cf (set_rx (set_ka s1 0) None) [AWrite (hash_of cf i) content; ACmd KPieceDone] reply.
  Proof.
    induction bls as [|[b0 l0] rest IH]; intros s r b reply Hd Hrx Hi Hh HT Hne Hsplit Hrq Hb; [congruence|].
    assert (Eb : b0 = b) by (inversion HT; reflexivity). rewrite Eb in *. clear Eb.
    pose proof (answer_step s r b l0 rest (match rest with [] => reply | _ => None end) Hd Hrx Hi Hh HT Hsplit Hrq Hb) as ST.
    destruct rest as [|t rest'].
    - exists s, [], (b, l0). split; [reflexivity|]. split; [reflexivity | exact ST].
    - destruct ST as (r' & a & E & Hi' & Hh' & Hsplit' & Hrq' & Hb' & _ & _).
      assert (HT' : Tiles (b + l0) L (t :: rest')) by (inversion HT; assumption).
      destruct (IH (set_rx (set_ka s 0) (Some r')) r' (b + l0) reply) as (s1 & pre & bl_last & Epre & R1 & EL);
        try assumption; try reflexivity; try discriminate.
      exists s1, ((b, l0) :: pre), bl_last. split; [rewrite Epre; reflexivity|]. split; [|exact EL].
      cbn [early map TraceProofs.run]. rewrite E. exact R1.
  Qed.

  (* from the assignment itself: the state new_piece_request leaves satisfies the hypotheses, for every length > 0 *)
  Corollary assigned_piece_completes int s r a reply :
    0 < L -> new_piece_request cf int i L = (r, a) -> h_hs_done s = true -> h_rx s = Some r ->
    exists s1 pre bl_last, left_blocks L = pre ++ [bl_last] /\
      run sha1 cf disk ovf s (early pre) = Some s1 /\
      hstep sha1 cf disk ovf s1 (EFrame (honest_answer bl_last)) reply =
        after_piece_finish cf (set_rx (set_ka s1 0) None) [AWrite (hash_of cf i) content; ACmd KPieceDone] reply.
  Proof.
    intros HL Hn Hd Hrx.
    assert (HT : Tiles 0 L (left_blocks L)) by apply left_blocks_tiles.
    assert (Hne : left_blocks L <> []).
    { intros E. rewrite E in HT. inversion HT. lia. }
    assert (Facts : rx_index r = i /\ rx_hash r = hash_of cf i /\ rx_requested r ++ rx_left r = left_blocks L /\
                    rx_requested r <> [] /\ rx_buff r = buff_at 0).
    { unfold new_piece_request, send_request, new_rx in Hn. cbn [rx_left rx_index rx_requested rx_hash rx_buff] in Hn.
      assert (B0 : repeat (0:N) (N.to_nat L) = buff_at 0).
      { unfold buff_at. rewrite N.sub_0_r. reflexivity. }
      destruct (left_blocks L) as [|[b1 l1] [|[b2 l2] rest]] eqn:EL; [congruence| |];
        cbn [rx_left rx_index rx_requested rx_hash rx_buff app] in Hn; injection Hn as <- _;
        cbn [rx_left rx_index rx_requested rx_hash rx_buff app]; repeat split; try discriminate; exact B0. }
    destruct Facts as (Hi & Hh & Hsplit & Hrq & Hb).
    exact (assignment_completes (left_blocks L) s r 0 reply Hd Hrx Hi Hh HT Hne Hsplit Hrq Hb).
  Qed.
End Piece.
