(* Url.v — executable mirror of TrackerClient::create_url, of form_urlencoded::byte_serialize and of
   the way reqwest appends the query parameters; plus the independent reading of a request target. *)
From Rdest Require Export Base BCodec Consts.
Open Scope N_scope.

(* Repair flag of src/tracker_client.rs: '&' instead of a second '?' when the announce URL has a query *)
Definition TrackerClient_query_aware : bool := true.

(* ---- form_urlencoded::byte_serialize ---------------------------------------------------------- *)
Definition unreserved (b : N) : bool :=
  ((48 <=? b) && (b <=? 57)) || ((65 <=? b) && (b <=? 90)) || ((97 <=? b) && (b <=? 122))
  || (b =? 42) || (b =? 45) || (b =? 46) || (b =? 95).
Definition hexd (x : N) : N := if x <? 10 then 48 + x else 55 + x.
Definition ser_byte (b : N) : bytes :=
  if unreserved b then [b] else if b =? 32 then [43] else [37; hexd (b / 16); hexd (b mod 16)].
Definition byte_serialize (bs : bytes) : bytes := flat_map ser_byte bs.

Definition ch_q : N := 63.  Definition ch_amp : N := 38.  Definition ch_eq : N := 61.
Definition s_info_hash : bytes := [105;110;102;111;95;104;97;115;104].
Definition s_peer_id : bytes := [112;101;101;114;95;105;100].
Definition s_port : bytes := [112;111;114;116].
Definition s_uploaded : bytes := [117;112;108;111;97;100;101;100].
Definition s_downloaded : bytes := [100;111;119;110;108;111;97;100;101;100].
Definition s_left : bytes := [108;101;102;116].
Definition s_event : bytes := [101;118;101;110;116].
Definition s_started : bytes := [115;116;97;114;116;101;100].
Definition s_numwant : bytes := [110;117;109;119;97;110;116].

(* TrackerClient::create_url *)
Definition create_url (announce hash : bytes) : bytes :=
  announce ++ [if TrackerClient_query_aware && existsb (N.eqb ch_q) announce then ch_amp else ch_q]
           ++ s_info_hash ++ [ch_eq] ++ byte_serialize hash.

(* the params array of TrackerClient::run *)
Definition params (own_id : bytes) (total : N) : list (bytes * bytes) :=
  [ (s_peer_id, own_id); (s_port, dec_N PORT); (s_uploaded, [48]); (s_downloaded, [48]);
    (s_left, dec_N total); (s_event, s_started); (s_numwant, [50; 48]) ].

(* RequestBuilder::query: pairs appended to the (non-empty) query with '&' *)
Definition with_params (url : bytes) (ps : list (bytes * bytes)) : bytes :=
  url ++ flat_map (fun kv => [ch_amp] ++ byte_serialize (fst kv) ++ [ch_eq] ++ byte_serialize (snd kv)) ps.

(* the request target of "http://authority<path>[?query]": an empty path becomes "/" *)
Fixpoint drop_authority (s : bytes) : bytes :=
  match s with
  | [] => []
  | c :: r => if (c =? 47) || (c =? ch_q) then s else drop_authority r
  end.
Definition target_of (url : bytes) : bytes :=
  let r := drop_authority (skipn 7 url) in
  match r with
  | 47 :: _ => r
  | _ => 47 :: r
  end.

Definition request_target (announce hash own_id : bytes) (total : N) : bytes :=
  target_of (with_params (create_url announce hash) (params own_id total)).

(* ---- reading a request target (specification side) ------------------------------------------- *)
Fixpoint split_on (sep : N) (cur : bytes) (s : bytes) : list bytes :=
  match s with
  | [] => [rev cur]
  | c :: r => if c =? sep then rev cur :: split_on sep [] r else split_on sep (c :: cur) r
  end.
Fixpoint break_at (sep : N) (s : bytes) : bytes * option bytes :=
  match s with
  | [] => ([], None)
  | c :: r => if c =? sep then ([], Some r)
              else let '(a, b) := break_at sep r in (c :: a, b)
  end.
Definition unhexd (c : N) : option N :=
  if (48 <=? c) && (c <=? 57) then Some (c - 48)
  else if (65 <=? c) && (c <=? 70) then Some (c - 55)
  else if (97 <=? c) && (c <=? 102) then Some (c - 87)
  else None.
Fixpoint form_decode (s : bytes) : bytes :=
  match s with
  | [] => []
  | c :: tl =>
      if c =? 43 then 32 :: form_decode tl
      else if c =? 37 then
        match tl with
        | h1 :: h2 :: r =>
            match unhexd h1, unhexd h2 with
            | Some a, Some b => (a * 16 + b) :: form_decode r
            | _, _ => 37 :: form_decode tl
            end
        | _ => 37 :: form_decode tl
        end
      else c :: form_decode tl
  end.

(* the raw (still encoded) key/value pairs of a query string *)
Definition query_pairs (q : bytes) : list (bytes * bytes) :=
  map (fun kv => let '(k, v) := break_at ch_eq kv in (k, match v with Some x => x | None => [] end))
      (filter (fun kv => negb (bytes_eqb kv [])) (split_on ch_amp [] q)).
Definition lookup (k : bytes) (ps : list (bytes * bytes)) : option bytes :=
  match find (fun kv => bytes_eqb (form_decode (fst kv)) k) ps with Some (_, v) => Some (form_decode v) | None => None end.
Definition path_query (target : bytes) : bytes * bytes :=
  let '(p, q) := break_at ch_q target in (p, match q with Some x => x | None => [] end).
