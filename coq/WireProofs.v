From Rdest Require Import Base BaseProofs Consts Wire WireSpec.
From Coq Require Import ZifyBool ZifyN ZifyNat.
Ltac Zify.zify_post_hook ::= Z.div_mod_to_equations.
Open Scope N_scope.

Lemma be32_BE32 n : n < 2^32 -> BE32 n (be32 n).
Proof.
  intros H. unfold BE32, be32.
  exists ((n / 16777216) mod 256), ((n / 65536) mod 256), ((n / 256) mod 256), (n mod 256).
  change (2^32) with 4294967296 in H. change (2^24) with 16777216. change (2^16) with 65536. change (2^8) with 256.
  repeat split; try lia.
Qed.

Lemma unbe32_be32 n : n < 2^32 ->
  unbe32 ((n / 16777216) mod 256) ((n / 65536) mod 256) ((n / 256) mod 256) (n mod 256) = n.
Proof. intros H. change (2^32) with 4294967296 in H. unfold unbe32. lia. Qed.

Theorem layout m : FieldsOk m -> Bep3 m (encode_msg m).
Proof.
  destruct m; cbn [FieldsOk Bep3 encode_msg]; intros H.
  - reflexivity.
  - reflexivity.
  - exists (be32 1). split; [apply be32_BE32; reflexivity | reflexivity].
  - exists (be32 1). split; [apply be32_BE32; reflexivity | reflexivity].
  - exists (be32 1). split; [apply be32_BE32; reflexivity | reflexivity].
  - exists (be32 1). split; [apply be32_BE32; reflexivity | reflexivity].
  - exists (be32 index). split; [apply be32_BE32; exact H|].
    exists (be32 5). split; [apply be32_BE32; reflexivity | reflexivity].
  - exists (be32 (1 + len pieces_bytes)). split; [apply be32_BE32; change (2^32) with 4294967296; lia | reflexivity].
  - destruct H as (Hi & Hb & Hl).
    exists (be32 index), (be32 begin), (be32 length). repeat split; try (apply be32_BE32; assumption).
    exists (be32 13). split; [apply be32_BE32; reflexivity|]. cbn. reflexivity.
  - destruct H as (Hi & Hb & Hl).
    exists (be32 index), (be32 begin). repeat split; try (apply be32_BE32; assumption).
    exists (be32 (1 + len (be32 index ++ be32 begin ++ block))). split.
    + apply be32_BE32. rewrite !len_app. change (len (be32 index)) with 4. change (len (be32 begin)) with 4.
      change (2^32) with 4294967296; lia.
    + rewrite !len_app. change (len (be32 index)) with 4. change (len (be32 begin)) with 4.
      unfold Piece_ID_SIZE, Piece_INDEX_SIZE, Piece_BEGIN_SIZE, Piece_ID.
      replace (1 + 4 + 4 + len block) with (1 + (4 + (4 + len block))) by lia.
      rewrite <- ?app_assoc. reflexivity.
  - destruct H as (Hi & Hb & Hl).
    exists (be32 index), (be32 begin), (be32 length). repeat split; try (apply be32_BE32; assumption).
    exists (be32 13). split; [apply be32_BE32; reflexivity|]. cbn. reflexivity.
Qed.

(* ---- round trip ------------------------------------------------------- *)

Lemma parse_frame_cons5 a b c d id tl :
  parse_frame (a :: b :: c :: d :: id :: tl) =
  let L := unbe32 a b c d in
  if L =? 0 then PFrame KeepAlive 4 else
  if (id =? 84) && negb (L =? 323119476) then (if 65536 <? L then PError else PUnknown id (4 + L)) else
  if negb (id =? 84) && (65536 <? L) then PError else
  dispatch id a L (5 + len tl) (a :: b :: c :: d :: id :: tl).
Proof.
  unfold parse_frame.
  replace (len (a :: b :: c :: d :: id :: tl)) with (5 + len tl) by (rewrite !len_cons; lia).
  replace (5 + len tl <? MSG_LEN_SIZE) with false by (symmetry; unfold MSG_LEN_SIZE; lia).
  replace (5 + len tl <? MSG_LEN_SIZE + MSG_ID_SIZE) with false by (symmetry; unfold MSG_LEN_SIZE, MSG_ID_SIZE; lia).
  cbv zeta. change (rd32 (a :: b :: c :: d :: id :: tl) 0) with (unbe32 a b c d).
  change (nthN (a :: b :: c :: d :: id :: tl) MSG_ID_POS) with (Some id).
  change (nthN (a :: b :: c :: d :: id :: tl) 0) with (Some a). cbv iota beta.
  change KeepAlive_LEN with 0. change KeepAlive_FULL_SIZE with 4. change Handshake_ID_FROM_PROTOCOL with 84.
  change MAX_FRAME_SIZE with 65536. change MSG_LEN_SIZE with 4.
  change handshake_prefix with 323119476. change Frame_handshake_by_prefix with true. cbn [negb orb].
  destruct (unbe32 a b c d =? 0); [reflexivity|].
  destruct (id =? 84); cbn [andb negb]; [|reflexivity].
  destruct (unbe32 a b c d =? 323119476); cbn [andb negb]; reflexivity.
Qed.

Ltac closed_ifs := repeat match goal with
 | |- context[if ?c then _ else _] =>
     let v := eval vm_compute in c in
     match v with
     | true => change c with true
     | false => change c with false
     end; cbv iota
 end.
Ltac ifs := repeat match goal with
  | |- context[if ?c then _ else _] =>
      first [ replace c with true by (symmetry; unfold_consts; unfold unbe32; lia)
            | replace c with false by (symmetry; unfold_consts; unfold unbe32; lia) ]; cbv iota
  end.

Lemma rd32_at (pre : bytes) a b c d tl o :
  o = len pre -> rd32 (pre ++ a :: b :: c :: d :: tl) o = unbe32 a b c d.
Proof.
  intros ->. unfold rd32.
  change (a :: b :: c :: d :: tl) with ([a; b; c; d] ++ tl).
  rewrite slice_app_exact by reflexivity. reflexivity.
Qed.

Lemma rd32_be32 (pre : bytes) n tl o :
  o = len pre -> n < 2^32 -> rd32 (pre ++ be32 n ++ tl) o = n.
Proof. intros Ho Hn. unfold be32. cbn [app]. rewrite rd32_at by exact Ho. apply unbe32_be32, Hn. Qed.

Lemma fixed_small m rest :
  match m with KeepAlive | Choke | Unchoke | Interested | NotInterested => True | _ => False end ->
  parse_frame (encode_msg m ++ rest) = PFrame m (len (encode_msg m)).
Proof.
  destruct m; intros []; cbn [encode_msg].
  - unfold parse_frame. rewrite len_app. change (len (be32 KeepAlive_LEN)) with 4.
    ifs. reflexivity.
  - change (be32 Choke_LEN ++ [Choke_ID]) with [0;0;0;1;0]. cbn [app]. rewrite parse_frame_cons5.
    cbv zeta. closed_ifs. unfold dispatch. closed_ifs. reflexivity.
  - change (be32 Unchoke_LEN ++ [Unchoke_ID]) with [0;0;0;1;1]. cbn [app]. rewrite parse_frame_cons5.
    cbv zeta. closed_ifs. unfold dispatch. closed_ifs. reflexivity.
  - change (be32 Interested_LEN ++ [Interested_ID]) with [0;0;0;1;2]. cbn [app]. rewrite parse_frame_cons5.
    cbv zeta. closed_ifs. unfold dispatch. closed_ifs. reflexivity.
  - change (be32 NotInterested_LEN ++ [NotInterested_ID]) with [0;0;0;1;3]. cbn [app]. rewrite parse_frame_cons5.
    cbv zeta. closed_ifs. unfold dispatch. closed_ifs. reflexivity.
Qed.

Lemma rt_have i rest : i < 2^32 ->
  parse_frame (encode_msg (Have i) ++ rest) = PFrame (Have i) (len (encode_msg (Have i))).
Proof.
  intros H. cbn [encode_msg].
  change (be32 Have_LEN) with [0;0;0;5]. change Have_ID with 4.
  rewrite <- !app_assoc. cbn [app]. rewrite parse_frame_cons5.
  cbv zeta. closed_ifs. unfold dispatch. closed_ifs.
  rewrite len_app. change (len (be32 i)) with 4. ifs.
  change (0 :: 0 :: 0 :: 5 :: 4 :: be32 i ++ rest) with ([0;0;0;5;4] ++ be32 i ++ rest).
  rewrite rd32_be32 by (reflexivity || assumption). reflexivity.
Qed.

Lemma rt_req3 (id : N) (mk : N -> N -> N -> msg) i b l rest :
  i < 2^32 -> b < 2^32 -> l < 2^32 ->
  rd32 ([0;0;0;13;id] ++ be32 i ++ be32 b ++ be32 l ++ rest) 5 = i /\
  rd32 ([0;0;0;13;id] ++ be32 i ++ be32 b ++ be32 l ++ rest) 9 = b /\
  rd32 ([0;0;0;13;id] ++ be32 i ++ be32 b ++ be32 l ++ rest) 13 = l.
Proof.
  intros Hi Hb Hl. repeat split.
  - apply rd32_be32; [reflexivity | assumption].
  - rewrite (app_assoc [0;0;0;13;id] (be32 i)). apply rd32_be32; [reflexivity | assumption].
  - rewrite (app_assoc [0;0;0;13;id] (be32 i)), (app_assoc _ (be32 b)). apply rd32_be32; [reflexivity | assumption].
Qed.

Lemma rt_request i b l rest : i < 2^32 -> b < 2^32 -> l < 2^32 ->
  parse_frame (encode_msg (Request i b l) ++ rest) = PFrame (Request i b l) (len (encode_msg (Request i b l))).
Proof.
  intros Hi Hb Hl. cbn [encode_msg].
  change (be32 Request_LEN) with [0;0;0;13]. change Request_ID with 6.
  rewrite <- !app_assoc. cbn [app]. rewrite parse_frame_cons5.
  cbv zeta. closed_ifs. unfold dispatch. closed_ifs.
  rewrite !len_app. change (len (be32 i)) with 4. change (len (be32 b)) with 4. change (len (be32 l)) with 4. ifs.
  destruct (rt_req3 6 Request i b l rest Hi Hb Hl) as (E1 & E2 & E3).
  cbn [app] in E1, E2, E3.
  change (Request_LEN_SIZE + Request_ID_SIZE) with 5.
  change (5 + Request_INDEX_SIZE) with 9. change (9 + Request_BEGIN_SIZE) with 13.
  rewrite E1, E2, E3. reflexivity.
Qed.

Lemma rt_cancel i b l rest : i < 2^32 -> b < 2^32 -> l < 2^32 ->
  parse_frame (encode_msg (Cancel i b l) ++ rest) = PFrame (Cancel i b l) (len (encode_msg (Cancel i b l))).
Proof.
  intros Hi Hb Hl. cbn [encode_msg].
  change (be32 Cancel_LEN) with [0;0;0;13]. change Cancel_ID with 8.
  rewrite <- !app_assoc. cbn [app]. rewrite parse_frame_cons5.
  cbv zeta. closed_ifs. unfold dispatch. closed_ifs.
  rewrite !len_app. change (len (be32 i)) with 4. change (len (be32 b)) with 4. change (len (be32 l)) with 4. ifs.
  destruct (rt_req3 8 Cancel i b l rest Hi Hb Hl) as (E1 & E2 & E3).
  cbn [app] in E1, E2, E3.
  change (Cancel_LEN_SIZE + Cancel_ID_SIZE) with 5.
  change (5 + Cancel_INDEX_SIZE) with 9. change (9 + Cancel_BEGIN_SIZE) with 13.
  rewrite E1, E2, E3. reflexivity.
Qed.

Lemma rt_bitfield bs rest : 1 + len bs <= 65536 ->
  parse_frame (encode_msg (Bitfield bs) ++ rest) = PFrame (Bitfield bs) (len (encode_msg (Bitfield bs))).
Proof.
  intros H. cbn [encode_msg]. change Bitfield_ID_SIZE with 1. change Bitfield_ID with 5.
  assert (HL : 1 + len bs < 2^32) by (change (2^32) with 4294967296; lia).
  rewrite !len_app. change (len (be32 (1 + len bs))) with 4. change (len [5]) with 1.
  unfold be32. rewrite <- !app_assoc. cbn [app]. rewrite parse_frame_cons5.
  cbv zeta. rewrite unbe32_be32 by exact HL.
  closed_ifs. ifs. unfold dispatch. closed_ifs. rewrite len_app. ifs.
  f_equal; try (unfold_consts; lia). f_equal.
  match goal with |- slice (?a :: ?b :: ?c :: ?d :: 5 :: bs ++ rest) _ _ = _ =>
    change (a :: b :: c :: d :: 5 :: bs ++ rest) with ([a;b;c;d;5] ++ bs ++ rest) end.
  apply slice_app_exact; [reflexivity | unfold_consts; lia].
Qed.

Lemma rt_piece i b blk rest : i < 2^32 -> b < 2^32 -> 9 + len blk <= 65536 ->
  parse_frame (encode_msg (Piece i b blk) ++ rest) = PFrame (Piece i b blk) (len (encode_msg (Piece i b blk))).
Proof.
  intros Hi Hb H. cbn [encode_msg].
  change (Piece_ID_SIZE + Piece_INDEX_SIZE + Piece_BEGIN_SIZE) with 9. change Piece_ID with 7.
  assert (HL : 9 + len blk < 2^32) by (change (2^32) with 4294967296; lia).
  rewrite !len_app. change (len (be32 (9 + len blk))) with 4. change (len [7]) with 1.
  change (len (be32 i)) with 4. change (len (be32 b)) with 4.
  unfold be32 at 1. rewrite <- !app_assoc. cbn [app]. rewrite parse_frame_cons5.
  cbv zeta. rewrite unbe32_be32 by exact HL.
  closed_ifs. ifs. unfold dispatch. closed_ifs. rewrite !len_app.
  change (len (be32 i)) with 4. change (len (be32 b)) with 4. ifs.
  match goal with |- context[rd32 (?a :: ?b0 :: ?c :: ?d :: 7 :: ?t)] =>
    change (a :: b0 :: c :: d :: 7 :: t) with ([a;b0;c;d;7] ++ t) end.
  change (Piece_LEN_SIZE + Piece_ID_SIZE) with 5. change (5 + Piece_INDEX_SIZE) with 9.
  change (9 + Piece_BEGIN_SIZE) with 13.
  rewrite rd32_be32 by (reflexivity || assumption).
  rewrite (app_assoc _ (be32 i)). rewrite rd32_be32 by (reflexivity || assumption).
  f_equal; try (unfold_consts; lia). f_equal.
  rewrite (app_assoc _ (be32 b)).
  apply slice_app_exact; [reflexivity | unfold_consts; lia].
Qed.

Lemma rt_handshake h p rest : length h = 20%nat -> length p = 20%nat ->
  parse_frame (encode_msg (Handshake h p) ++ rest) = PFrame (Handshake h p) (len (encode_msg (Handshake h p))).
Proof.
  intros Hh Hp. cbn [encode_msg].
  change (len Handshake_PROTOCOL_ID mod 256) with 19.
  assert (Eh : len h = 20) by (unfold len; rewrite Hh; reflexivity).
  assert (Ep : len p = 20) by (unfold len; rewrite Hp; reflexivity).
  rewrite !len_app, Eh, Ep.
  change (len [19]) with 1. change (len Handshake_PROTOCOL_ID) with 19.
  change (len (repeat 0 (N.to_nat Handshake_RESERVED_SIZE))) with 8.
  change (repeat 0 (N.to_nat Handshake_RESERVED_SIZE)) with [0;0;0;0;0;0;0;0].
  unfold Handshake_PROTOCOL_ID at 1. rewrite <- !app_assoc. cbn [app]. rewrite parse_frame_cons5.
  cbv zeta. closed_ifs. unfold dispatch. closed_ifs.
  rewrite !len_cons, !len_app, Eh, Ep. ifs.
  change (len Handshake_PROTOCOL_ID) with 19.
  change (Handshake_LEN_SIZE + 19 + Handshake_RESERVED_SIZE) with 28.
  change (28 + Handshake_INFO_HASH_SIZE) with 48.
  f_equal. f_equal.
  - match goal with |- slice ?l _ _ = _ =>
      change l with ((19 :: Handshake_PROTOCOL_ID ++ [0;0;0;0;0;0;0;0]) ++ h ++ (p ++ rest)) end.
    apply slice_app_exact; [reflexivity | unfold_consts; lia].
  - match goal with |- slice ?l _ _ = _ =>
      change l with ((19 :: Handshake_PROTOCOL_ID ++ [0;0;0;0;0;0;0;0]) ++ h ++ (p ++ rest)) end.
    rewrite app_assoc. apply slice_app_exact; [rewrite len_app, Eh; reflexivity | unfold_consts; lia].
Qed.

Theorem roundtrip m rest : FieldsOk m ->
  parse_frame (encode_msg m ++ rest) = PFrame m (len (encode_msg m)).
Proof.
  destruct m; cbn [FieldsOk]; intros H.
  - destruct H; apply rt_handshake; assumption.
  - apply fixed_small; exact I.
  - apply fixed_small; exact I.
  - apply fixed_small; exact I.
  - apply fixed_small; exact I.
  - apply fixed_small; exact I.
  - apply rt_have; assumption.
  - apply rt_bitfield; assumption.
  - destruct H as (? & ? & ?); apply rt_request; assumption.
  - destruct H as (? & ? & ?); apply rt_piece; assumption.
  - destruct H as (? & ? & ?); apply rt_cancel; assumption.
Qed.

(* consequences: the encoding is prefix-free, so a byte stream names at most one message sequence *)
Theorem encode_prefix_free m1 m2 r1 r2 : FieldsOk m1 -> FieldsOk m2 ->
  encode_msg m1 ++ r1 = encode_msg m2 ++ r2 -> m1 = m2 /\ r1 = r2.
Proof.
  intros H1 H2 E.
  pose proof (roundtrip m1 r1 H1) as P1. pose proof (roundtrip m2 r2 H2) as P2.
  rewrite E in P1. rewrite P1 in P2. injection P2 as Hm _. subst m2.
  split; [reflexivity|]. eapply app_inv_head. exact E.
Qed.

(* a whole stream: two sequences of well-formed messages with the same bytes are the same sequence *)
Theorem encode_stream_injective ms1 : forall ms2, Forall FieldsOk ms1 -> Forall FieldsOk ms2 ->
  concat (map encode_msg ms1) = concat (map encode_msg ms2) -> ms1 = ms2.
Proof.
  induction ms1 as [|m1 ms1 IH]; intros [|m2 ms2] F1 F2 E; cbn [map concat] in E.
  - reflexivity.
  - exfalso. inversion F2 as [|? ? Hm2 _]; subst.
    pose proof (roundtrip m2 (concat (map encode_msg ms2)) Hm2) as P. rewrite <- E in P. cbn in P. discriminate.
  - exfalso. inversion F1 as [|? ? Hm1 _]; subst.
    pose proof (roundtrip m1 (concat (map encode_msg ms1)) Hm1) as P. rewrite E in P. cbn in P. discriminate.
  - inversion F1 as [|? ? Hm1 F1']; inversion F2 as [|? ? Hm2 F2']; subst.
    destruct (encode_prefix_free _ _ _ _ Hm1 Hm2 E) as [-> Er]. f_equal. apply IH; assumption.
Qed.

(* ---- bitfield ----------------------------------------------------------- *)

Definition unpack8 := unpack_byte 8.
Definition pack8 (c : list bool) := pack_byte c 128.

Lemma unpack_pack c : (length c <= 8)%nat ->
  firstn (length c) (unpack8 (pack8 c)) = c /\ pack8 c < 256.
Proof.
  intros H.
  do 9 (destruct c as [|[|] c]; [split; reflexivity| |]); cbn [length] in H; lia.
Qed.

Lemma unpack_pack_full c : length c = 8%nat -> unpack8 (pack8 c) = c.
Proof.
  intros H. destruct (unpack_pack c) as [E _]; [lia|].
  rewrite H in E. rewrite firstn_all2 in E by (cbn; lia). exact E.
Qed.

Lemma unpack8_length b : length (unpack8 b) = 8%nat.
Proof. reflexivity. Qed.

Lemma from_vec_chunks bits :
  from_vec bits = map pack8 (chunks 8 bits).
Proof. reflexivity. Qed.

Lemma unpack_from_vec bits :
  firstn (length bits) (flat_map unpack8 (from_vec bits)) = bits.
Proof.
  rewrite from_vec_chunks. pattern bits. apply (chunks_ind 8); [lia|reflexivity|].
  clear bits. intros l Hl IH.
  rewrite chunks_step by (lia || assumption). cbn [map flat_map].
  destruct (Nat.le_gt_cases 8 (length l)) as [Hge|Hlt].
  - rewrite unpack_pack_full by (rewrite firstn_length; lia).
    rewrite firstn_app, firstn_length, Nat.min_l by lia.
    rewrite firstn_firstn, Nat.min_r by lia.
    rewrite skipn_length in IH. rewrite IH. apply firstn_skipn.
  - rewrite skipn_all2 by lia. rewrite chunks_nil. cbn [map flat_map]. rewrite app_nil_r.
    rewrite (@firstn_all2 _ 8%nat l) by lia. apply unpack_pack. lia.
Qed.

Lemma chunks_length {A} (l : list A) :
  N.of_nat (length (chunks 8 l)) = bytes_num (len l).
Proof.
  pattern l. apply (chunks_ind 8); [lia|reflexivity|].
  clear l. intros l Hl IH.
  rewrite chunks_step by (lia || assumption). cbn [length].
  unfold bytes_num, len in *. rewrite skipn_length in IH. unfold Bitfield_BITS_IN_BYTE in *.
  destruct l as [|x l]; [congruence|]. cbn [length] in *.
  destruct (Nat.le_gt_cases 8 (S (length l))) as [Hge|Hlt].
  - rewrite (Nat2N.inj_succ (length (chunks 8 (skipn 8 (x :: l))))).
    remember (N.of_nat (length (chunks 8 (skipn 8 (x :: l))))) as c eqn:Ec. clear Ec.
    revert IH.
    destruct (N.eqb_spec (N.of_nat (S (length l) - 8) mod 8) 0),
             (N.eqb_spec (N.of_nat (S (length l)) mod 8) 0); intros IH; lia.
  - rewrite (Nat2N.inj_succ (length (chunks 8 (skipn 8 (x :: l))))).
    remember (N.of_nat (length (chunks 8 (skipn 8 (x :: l))))) as c eqn:Ec. clear Ec.
    replace (S (length l) - 8)%nat with 0%nat in IH by lia. cbn in IH. subst c.
    destruct (N.eqb_spec (N.of_nat (S (length l)) mod 8) 0); lia.
Qed.

Theorem to_vec_from_vec bits : to_vec (from_vec bits) (len bits) = Some bits.
Proof.
  unfold to_vec.
  replace (len (from_vec bits) =? bytes_num (len bits)) with true.
  - f_equal. rewrite to_nat_len. apply unpack_from_vec.
  - symmetry. apply N.eqb_eq. rewrite from_vec_chunks. unfold len at 1. rewrite map_length.
    apply chunks_length.
Qed.

Lemma from_vec_bytes bits : Forall (fun b => b < 256) (from_vec bits).
Proof.
  rewrite from_vec_chunks. pattern bits. apply (chunks_ind 8); [lia|constructor|].
  clear bits. intros l Hl IH. rewrite chunks_step by (lia || assumption). cbn [map].
  constructor; [|exact IH]. apply unpack_pack. rewrite firstn_length. lia.
Qed.

Definition bits_of_byte (b : N) : list bool :=
  [N.testbit b 7; N.testbit b 6; N.testbit b 5; N.testbit b 4;
   N.testbit b 3; N.testbit b 2; N.testbit b 1; N.testbit b 0].

Lemma unpack8_bits_all :
  forallb (fun k => list_eqb Bool.eqb (unpack8 (N.of_nat k)) (bits_of_byte (N.of_nat k))) (seq 0 256) = true.
Proof. vm_compute. reflexivity. Qed.

Lemma list_eqb_bool_eq l1 l2 : list_eqb Bool.eqb l1 l2 = true -> l1 = l2.
Proof.
  revert l2. induction l1 as [|x l1 IH]; intros [|y l2]; cbn; try congruence.
  intros H. apply andb_prop in H. destruct H as [H1 H2].
  apply Bool.eqb_prop in H1. subst. f_equal. apply IH, H2.
Qed.

Lemma unpack8_bits b : b < 256 -> unpack8 b = bits_of_byte b.
Proof.
  intros H. pose proof unpack8_bits_all as HA. rewrite forallb_forall in HA.
  specialize (HA (N.to_nat b)). rewrite N2Nat.id in HA.
  apply list_eqb_bool_eq, HA. apply in_seq. lia.
Qed.

Lemma bits_of_byte_nth b j : (j < 8)%nat ->
  nth_error (bits_of_byte b) j = Some (N.testbit b (N.of_nat (7 - j))).
Proof. intros H. do 8 (destruct j as [|j]; [reflexivity|]). lia. Qed.

Lemma flat_unpack_nth bs : Forall (fun b => b < 256) bs ->
  forall i, (i < 8 * length bs)%nat ->
  nth_error (flat_map unpack8 bs) i = Some (bit_of bs i).
Proof.
  induction 1 as [|b bs Hb Hbs IH]; intros i Hi; [cbn in Hi; lia|].
  cbn [flat_map]. destruct (Nat.lt_ge_cases i 8) as [Hlt|Hge].
  - rewrite nth_error_app1 by (rewrite unpack8_length; exact Hlt).
    rewrite unpack8_bits by exact Hb. rewrite bits_of_byte_nth by exact Hlt.
    unfold bit_of. rewrite Nat.div_small, Nat.mod_small by exact Hlt. reflexivity.
  - rewrite nth_error_app2 by (rewrite unpack8_length; exact Hge). rewrite unpack8_length.
    rewrite IH by (cbn [length] in Hi; lia). unfold bit_of. f_equal.
    replace i with ((i - 8) + 1 * 8)%nat at 3 4 by lia.
    rewrite Nat.div_add, Nat.mod_add by lia.
    replace ((i - 8) / 8 + 1)%nat with (S ((i - 8) / 8)) by lia. reflexivity.
Qed.

Lemma flat_unpack_length bs : length (flat_map unpack8 bs) = (8 * length bs)%nat.
Proof. induction bs as [|b bs IH]; [reflexivity|]. cbn [flat_map length]. rewrite app_length, unpack8_length, IH. lia. Qed.

Theorem to_vec_bits bs n v : Forall (fun b => b < 256) bs -> to_vec bs n = Some v ->
  length v = N.to_nat n /\ forall i, (i < N.to_nat n)%nat -> nth_error v i = Some (bit_of bs i).
Proof.
  intros Hbs. unfold to_vec. destruct (len bs =? bytes_num n) eqn:E; [|discriminate].
  intros Hv. apply (f_equal (fun o => match o with Some x => x | None => v end)) in Hv. cbv beta iota in Hv. subst v.
  apply N.eqb_eq in E.
  assert (Hn : (N.to_nat n <= 8 * length bs)%nat).
  { unfold bytes_num, len, Bitfield_BITS_IN_BYTE in E. destruct (n mod 8 =? 0) eqn:E2; lia. }
  split.
  - rewrite firstn_length, Nat.min_l; [reflexivity|].
    change (N.to_nat Bitfield_BITS_IN_BYTE) with 8%nat. fold unpack8. rewrite flat_unpack_length. lia.
  - intros i Hi. change (N.to_nat Bitfield_BITS_IN_BYTE) with 8%nat. fold unpack8.
    rewrite nth_error_firstn_lt by exact Hi. apply flat_unpack_nth; [exact Hbs | lia].
Qed.

Theorem from_vec_bits bits i : (i < length bits)%nat ->
  nth_error bits i = Some (bit_of (from_vec bits) i).
Proof.
  intros Hi. destruct (to_vec_bits (from_vec bits) (len bits) bits (from_vec_bytes bits) (to_vec_from_vec bits)) as [_ H].
  apply H. rewrite to_nat_len. exact Hi.
Qed.
