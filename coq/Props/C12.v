(* C12 — no missing piece is ever withheld by a stale reservation. *)
From Rdest Require Import Base Consts Wire Manager MgrProofs Handler HandlerProofs PairProofs WfProofs.
Open Scope N_scope.

(* a piece once owned stays owned, whatever command the manager handles *)
Theorem C12_have_absorbing : forall m c pick m' r bc sp i, mstep m c pick = Ok (m', r, bc, sp) ->
  have_at (m_status m) i -> have_at (m_status m') i.
Proof. exact have_absorbing. Qed.

(* a peer is only ever assigned a piece it advertised and the client still lacks: the chooser's relation *)
Theorem C12_asked_advertised_lacked : forall m p i, pick_ok m p (Some i) = true ->
  nth (N.to_nat i) (p_pieces p) false = true /\
  exists s, nth_error (m_status m) (N.to_nat i) = Some s /\ is_have s = false.
Proof.
  intros m p i H. destruct (pick_ok_spec m p (Some i) H) as (A & (s & B & C & _) & _). split; [exact A|]. exists s. tauto.
Qed.

(* The reservation invariant.  InvM m: a piece is marked Reserved(n) only with 1 <= n <= the number of connected peers
   that are not choking us and are assigned it.  It holds in every state reachable by ANY sequence of peer commands the
   connection tasks can produce (repeated and out-of-order ones included, any interleaving over any number of peers,
   disconnects anywhere), for every answer of the chooser, interleaved with newly accepted connections, runs of the
   choke-rotation timer (any rate lists, any optimistic picks) and tracker answers (any peer lists). *)
Theorem C12_invariant : forall m, mreach m -> InvM m.
Proof. intros. apply reservation_invariant_reachable; [reflexivity | assumption]. Qed.

Theorem C12_invariant_step : forall m c pick m' r bc sp,
  InvM m -> producible m c -> mstep m c pick = Ok (m', r, bc, sp) -> InvM m'.
Proof. intros. eapply reservation_invariant; eauto. Qed.

(* so the piece becomes assignable again as soon as the last such peer chokes us, is re-assigned, finishes or goes
   away: with no peer left that is assigned it and not choking us, it cannot be Reserved *)
Corollary C12_released : forall m i n, mreach m -> cnt (m_peers m) i = 0 -> nthN (m_status m) i <> Some (Reserved n).
Proof. intros m i n R Hc H. pose proof (C12_invariant m R i n H). lia. Qed.

(* `producible` is what the connection task guarantees: it relays an Unchoke only when the peer was choking us *)
Theorem C12_task_guarantee : forall sha1 cf disk ovf s m r,
  In (ACmd KUnchoke) (acts_of (hstep sha1 cf disk ovf s (EFrame m) r)) -> m = Unchoke /\ h_choked s = true.
Proof. intros. eapply unchoke_relayed_only_when_choked; eauto. Qed.

(* the composed statement: in every reachable composition of a task with the manager (PairProofs.v: own events
   with their commands handled in order, everything else interleaved) the manager's "peer chokes us" flag for that
   peer -- the one it consults before reserving -- is the task's own flag, and the piece it holds the peer to is the
   piece the task is assembling *)
Theorem C12_flags_agree : forall sha1 cf disk ovf a m s p, creach sha1 cf disk ovf a m s ->
  pget (m_peers m) a = Some p -> p_choked p = h_choked s /\ p_piece_index p = option_map rx_index (h_rx s).
Proof.
  intros sha1 cf disk ovf a m s p R Ep. destruct (pair_reachable sha1 cf disk ovf a m s R) as [HP _].
  pose proof (HP p Ep) as V. unfold pview, hview in V. injection V as Vi Vc. split; assumption.
Qed.

(* NO MANAGER PANIC.  Under well-formedness (one status per piece, one advertised bit per piece for every peer, assigned
   indices in range) none of the manager's panic sites is reachable for a command the tasks can send, with any chooser
   answer in range (C13: the chooser's answers are eligible pieces, hence in range: pick_ok_valid) ... *)
Theorem C12_no_manager_panic : forall m c pick, WFm m -> sendable m c -> valid_pick m pick -> mstep m c pick <> Panic.
Proof. exact no_manager_panic. Qed.
(* ... well-formedness holds initially and is preserved by every command, rotation and tracker answer ... *)
Theorem C12_wf_preserved :
  (forall st plens, length st = length plens -> WFm (mkmgr st [] [] 0 false plens)) /\
  (forall m c pick m' rep bc sp, WFm m -> valid_pick m pick -> mstep m c pick = Ok (m', rep, bc, sp) -> WFm m') /\
  (forall m rates new_opt m' fl, WFm m -> change_conn_state m rates new_opt = Ok (m', fl) -> WFm m') /\
  (forall m peers, WFm m -> WFm (fst (handle_tracker_resp m peers))) /\
  (forall m p pick, WFm m -> pick_ok m p pick = true -> valid_pick m pick) /\
  (forall m a, WFm m -> WFm (fst (accept_peer m a))).
Proof.
  split; [exact WF_init|]. split; [intros; eapply WF_step; eassumption|]. split; [intros; eapply WF_rotation; eassumption|].
  split; [intros; apply WF_tracker_resp; assumption|]. split; [intros; eapply pick_ok_valid; eassumption|].
  intros; apply accept_WF; assumption.
Qed.
(* ... and `sendable` is what the tasks guarantee: in every reachable composition, the command an event makes the task
   send (a Have index below the piece count, PieceDone/PieceCancel only with a piece in progress -- which by the pair
   invariant the manager has assigned --, Unchoke/NotInterested only for a connected peer) is sendable *)
Theorem C12_task_commands_sendable : forall sha1 cf disk ovf a m s ev r k rest,
  creach sha1 cf disk ovf a m s -> c_pieces_num cf = pieces_n m ->
  cmds_of (acts_of (hstep sha1 cf disk ovf s ev r)) = k :: rest -> sendable m (to_cmd a k).
Proof. exact own_first_command_sendable. Qed.

(* The full form (review): Session::run puts `.expect("Can't handle command")` on handle_peer_cmd's Result, so an `Err`
   (PeerNotFound, a bitfield of the wrong size) ends the manager exactly like a panic.  `deliverable` = `sendable` + the
   sender is a connected peer + a relayed bitfield passed Bitfield::validate; on such a command the manager returns Ok *)
Theorem C12_manager_handles : forall m c pick, WFm m -> deliverable m c -> valid_pick m pick ->
  exists m' rep bc sp, mstep m c pick = Ok (m', rep, bc, sp).
Proof. exact manager_handles. Qed.
(* ... which is what the tasks send, in every reachable composition ... *)
Theorem C12_task_commands_deliverable : forall sha1 cf disk ovf a m s ev r k rest,
  creach sha1 cf disk ovf a m s -> c_pieces_num cf = pieces_n m ->
  cmds_of (acts_of (hstep sha1 cf disk ovf s ev r)) = k :: rest -> deliverable m (to_cmd a k).
Proof. exact own_first_command_deliverable. Qed.
(* ... and the rotation timer's `.expect`: with rate lists and optimistic picks drawn from the connected peers (the
   wrapper builds both from the keys of `peers`) change_conn_state returns Ok *)
Theorem C12_rotation_handles : forall m rates new_opt,
  (forall a, In a (map fst rates) -> pget (m_peers m) a <> None) -> (forall a, In a new_opt -> pget (m_peers m) a <> None) ->
  exists m' fl, change_conn_state m rates new_opt = Ok (m', fl).
Proof. exact rotation_handles. Qed.

(* ... put together over reachable states (review): well-formedness is not an assumption there -- `mreach` starts well
   formed and takes chooser answers in range, and every move keeps WFm (`mreach_WF`) -- so in every state the manager can
   reach that is composed with a task, the first command an event makes that task send is handled with Ok *)
Theorem C12_reachable_wf : forall m, mreach m -> WFm m.
Proof. exact mreach_WF. Qed.
Theorem C12_reachable_task_command_handled : forall sha1 cf disk ovf a m s ev r k rest pick,
  mreach m -> creach sha1 cf disk ovf a m s -> c_pieces_num cf = pieces_n m ->
  cmds_of (acts_of (hstep sha1 cf disk ovf s ev r)) = k :: rest -> valid_pick m pick ->
  exists m' rep bc sp, mstep m (to_cmd a k) pick = Ok (m', rep, bc, sp).
Proof.
  intros sha1 cf disk ovf a m s ev r k rest pick HR HC Hn Hk Hv.
  apply reachable_manager_handles; [exact HR | eapply own_first_command_deliverable; eassumption | exact Hv].
Qed.

Example C12_reachable_nonvacuous :
  mreach ex_m1 /\ creach ex_sha1 ex_cf ex_disk true 1 ex_m1 (h_init None) /\ c_pieces_num ex_cf = pieces_n ex_m1.
Proof.
  split; [|split].
  - change ex_m1 with (mkmgr (m_status ex_m0) (pset (m_peers ex_m0) 1 (new_peer None (length (m_plens ex_m0)))) (m_candidates ex_m0)
                             (m_round ex_m0) (m_extracted ex_m0) (m_plens ex_m0)).
    apply mreach_add; [apply mreach_init; [reflexivity | intros i n H; unfold nthN in H; destruct (N.to_nat i) as [|[|k]]; discriminate] | reflexivity].
  - apply (cr_start ex_sha1 ex_cf ex_disk true 1 ex_m0 ex_m1 None); [reflexivity | | discriminate].
    unfold EnvKeeps. cbn. intros p' H. injection H as <-. reflexivity.
  - reflexivity.
Qed.

(* Incoming connections (Session::spawn_peer_listener = accept_peer, part of `mreach`): the invariant survives them because
   an address that is still connected is not taken a second time.  The pinned listener had no such check and is refuted:
   a second connection from the address of a peer that holds an assignment replaced its entry -- the reservation was
   left with nobody behind it, and the first connection's PieceDone then made the manager panic. *)
Theorem C12_listener_repaired : accept_peer = accept_peer_with true.
Proof. reflexivity. Qed.
Theorem C12_listener_keeps_invariant : forall m a, InvM m -> InvM (fst (accept_peer m a)).
Proof. exact accept_InvM. Qed.
Theorem C12_listener_pinned_refuted :
  InvM dup_m /\ ~ InvM (fst (accept_peer_with false dup_m 7)) /\
  mstep (fst (accept_peer_with false dup_m 7)) (CPieceDone 7) None = Panic /\
  accept_peer_with true dup_m 7 = (dup_m, []).
Proof. exact accept_duplicate_refuted. Qed.

(* and an assignment is asked for at once: C10_assignment (the task writes the first blocks of the piece it was assigned).
   Not modelled: the KillReq window after a task's death. The correspondence evaluates the stronger "has actually been
   asked" form on the real Session with the task's piece in the harness (reserved_backed / asked_ok). Three defects
   were found and repaired (known_findings.json). *)
Example C12_nonvacuous :
  let p := mkpeer None [true; true] None false true false true false None None in
  let m := mkmgr [Missing; Have] [(1, p)] [] 0 false [4; 2] in
  match mstep m (CUnchoke 1) (Some 0) with Ok (m', r, _, _) => m_status m' = [Reserved 1; Have] /\ r = RUnchoke_IntReq 0 4 | _ => False end.
Proof. vm_compute. split; reflexivity. Qed.

Print Assumptions C12_have_absorbing.
Print Assumptions C12_asked_advertised_lacked.
Print Assumptions C12_invariant.
Print Assumptions C12_invariant_step.
Print Assumptions C12_released.
Print Assumptions C12_task_guarantee.
Print Assumptions C12_flags_agree.
Print Assumptions C12_no_manager_panic.
Print Assumptions C12_wf_preserved.
Print Assumptions C12_task_commands_sendable.
Print Assumptions C12_manager_handles.
Print Assumptions C12_task_commands_deliverable.
Print Assumptions C12_rotation_handles.
Print Assumptions C12_reachable_wf.
Print Assumptions C12_reachable_task_command_handled.
Print Assumptions C12_listener_repaired.
Print Assumptions C12_listener_keeps_invariant.
Print Assumptions C12_listener_pinned_refuted.
