(* Manager.v — executable mirror of the session manager: src/peer.rs (per-peer state and the
   handle_* reactions) and the command handling of src/session.rs (handle_peer_cmd and what it
   calls, choose_piece_index, unchoked_num, change_conn_state, kill_peer, handle_kill_req,
   handle_tracker_cmd's bookkeeping).  Models only; proofs live in MgrProofs.v.

   Peers are keyed by an address (N); the HashMap is an association list with distinct keys.
   Randomness (the shuffle in choose_piece_index, the optimistic pick) is an explicit
   argument: a step takes the pick the implementation made and `pick_ok` says whether the
   code could have made it. *)
From Rdest Require Export Base Consts Wire.
Open Scope N_scope.

Inductive status := Missing | Reserved (n : N) | Have.
Definition status_eqb (a b : status) : bool :=
  match a, b with
  | Missing, Missing | Have, Have => true
  | Reserved x, Reserved y => x =? y
  | _, _ => false
  end.
Definition is_have (s : status) : bool := match s with Have => true | _ => false end.
Definition is_missing (s : status) : bool := match s with Missing => true | _ => false end.

Record peer := mkpeer {
  p_id : option bytes;
  p_pieces : list bool;          (* what the peer advertised *)
  p_piece_index : option N;      (* current assignment *)
  p_am_interested : bool;
  p_am_choked : bool;            (* we choke the peer *)
  p_interested : bool;
  p_choked : bool;               (* the peer chokes us *)
  p_optimistic : bool;
  p_drate : option N;
  p_urate : option N
}.

Definition new_peer (id : option bytes) (n : nat) : peer :=
  mkpeer id (repeat false n) None false true false true false None None.

Definition addr := N.

Record mgr := mkmgr {
  m_status : list status;
  m_peers : list (addr * peer);
  m_candidates : list (addr * bytes);      (* Vec: pop() takes from the end *)
  m_round : N;
  m_extracted : bool;
  m_plens : list N                          (* Metainfo::piece_length(i), i < pieces_num *)
}.

Definition pieces_n (m : mgr) : N := len (m_plens m).

(* ---- association list helpers -------------------------------------------------------- *)
Fixpoint pget (ps : list (addr * peer)) (a : addr) : option peer :=
  match ps with [] => None | (k, p) :: r => if k =? a then Some p else pget r a end.
Fixpoint pset (ps : list (addr * peer)) (a : addr) (p : peer) : list (addr * peer) :=
  match ps with
  | [] => [(a, p)]
  | (k, q) :: r => if k =? a then (k, p) :: r else (k, q) :: pset r a p
  end.
Fixpoint premove (ps : list (addr * peer)) (a : addr) : list (addr * peer) :=
  match ps with [] => [] | (k, q) :: r => if k =? a then r else (k, q) :: premove r a end.

Fixpoint set_nth {A} (l : list A) (i : nat) (x : A) : list A :=
  match l, i with
  | [], _ => []
  | _ :: r, O => x :: r
  | y :: r, S i' => y :: set_nth r i' x
  end.
Definition sget (m : mgr) (i : N) : option status := nthN (m_status m) i.
Definition sset (st : list status) (i : N) (s : status) : list status := set_nth st (N.to_nat i) s.

(* ---- replies -------------------------------------------------------------------------- *)
Inductive reply :=
| RNone                                   (* commands without a response channel *)
| RBitfield (bits : list bool)            (* InitCmd::SendBitfield *)
| RUnchoke_IntReq (i len : N) | RUnchoke_Req (i len : N) | RUnchoke_NotInt | RUnchoke_Ignore
| RNotInt_Kill | RNotInt_Ignore
| RHave_IntReq (i len : N) | RHave_Int | RHave_Ignore
| RBitfieldState (with_unchoke am_interested : bool)
| RReq_Load (i : N) | RReq_Ignore
| RPiece_Req (i len : N) | RPiece_NotInt | RPiece_Kill | RPiece_Ignore.

Inductive broadcast := BHave (i : N) | BOwnState (m : list (addr * bool)).
Inductive spawn := SpExtractor | SpTracker | SpPeer (a : addr).

Inductive cmd :=
| CInit (a : addr) (id : bytes)
| CChoke (a : addr)
| CUnchoke (a : addr)
| CInterested (a : addr)
| CNotInterested (a : addr)
| CHave (a : addr) (i : N)
| CBitfield (a : addr) (bits : bytes)
| CRequest (a : addr) (i : N)
| CPieceDone (a : addr)
| CPieceCancel (a : addr)
| CSyncStats (a : addr) (d u : option N)
| CKill (a : addr).

(* ---- choose_piece_index ---------------------------------------------------------------- *)
Definition count_have (m : mgr) (i : nat) : N :=
  len (filter (fun kp => nth i (p_pieces (snd kp)) false) (m_peers m)).

Definition still_missing (m : mgr) : N := len (filter (fun s => negb (is_have s)) (m_status m)).
Definition end_game (m : mgr) : bool := still_missing m <? session_END_GAME_LIMIT.

Definition desired (m : mgr) (i : nat) : bool :=
  match nth_error (m_status m) i with
  | Some s => if end_game m then negb (is_have s) else is_missing s
  | None => false
  end.

(* a piece the chooser may return for this peer: desired, advertised by it (hence count > 0) *)
Definition eligible (m : mgr) (p : peer) (i : nat) : bool :=
  desired m i && (0 <? count_have m i) && nth i (p_pieces p) false.

Definition indices (m : mgr) : list nat := seq 0 (length (m_status m)).

(* the shuffle followed by a stable sort on the count yields some minimal-count eligible piece *)
Definition pick_ok (m : mgr) (p : peer) (pick : option N) : bool :=
  match pick with
  | Some i =>
      let i' := N.to_nat i in
      eligible m p i' &&
      forallb (fun j => negb (eligible m p j) || (count_have m i' <=? count_have m j)) (indices m)
  | None => forallb (fun j => negb (eligible m p j)) (indices m)
  end.

(* the picks the code can make, for the membership form of the correspondence *)
Definition allowed_picks (m : mgr) (p : peer) : list (option N) :=
  let el := filter (eligible m p) (indices m) in
  match el with
  | [] => [None]
  | _ => map (fun i => Some (N.of_nat i))
             (filter (fun i => forallb (fun j => count_have m i <=? count_have m j) el) el)
  end.

(* ---- peer.rs ------------------------------------------------------------------------------ *)
Definition incr (s : status) : status :=
  match s with Reserved n => Reserved (n + 1) | Missing => Reserved 1 | Have => Have end.
Definition decr (s : status) : status :=
  match s with Reserved n => if 2 <=? n then Reserved (n - 1) else Missing | s => s end.

Definition plen_of (m : mgr) (i : N) : result N :=
  match nthN (m_plens m) i with Some l => Ok l | None => Panic end.

(* pieces_status[i] = f(pieces_status[i]) : index panic when out of range *)
Definition upd_status (st : list status) (i : N) (f : status -> status) : result (list status) :=
  match nthN st i with Some s => Ok (sset st i (f s)) | None => Panic end.

Definition with_peer (m : mgr) (a : addr) (p : peer) : mgr :=
  mkmgr (m_status m) (pset (m_peers m) a p) (m_candidates m) (m_round m) (m_extracted m) (m_plens m).
Definition with_status (m : mgr) (st : list status) : mgr :=
  mkmgr st (m_peers m) (m_candidates m) (m_round m) (m_extracted m) (m_plens m).

Definition set_choked (p : peer) (b : bool) : peer :=
  mkpeer (p_id p) (p_pieces p) (p_piece_index p) (p_am_interested p) (p_am_choked p) (p_interested p) b
         (p_optimistic p) (p_drate p) (p_urate p).
Definition set_assign (p : peer) (idx : option N) (am_int : bool) : peer :=
  mkpeer (p_id p) (p_pieces p) idx am_int (p_am_choked p) (p_interested p) (p_choked p)
         (p_optimistic p) (p_drate p) (p_urate p).
Definition set_interested (p : peer) (b : bool) : peer :=
  mkpeer (p_id p) (p_pieces p) (p_piece_index p) (p_am_interested p) (p_am_choked p) b (p_choked p)
         (p_optimistic p) (p_drate p) (p_urate p).
Definition set_pieces (p : peer) (bits : list bool) : peer :=
  mkpeer (p_id p) bits (p_piece_index p) (p_am_interested p) (p_am_choked p) (p_interested p) (p_choked p)
         (p_optimistic p) (p_drate p) (p_urate p).
Definition set_am (p : peer) (am_int am_chk : bool) : peer :=
  mkpeer (p_id p) (p_pieces p) (p_piece_index p) am_int am_chk (p_interested p) (p_choked p)
         (p_optimistic p) (p_drate p) (p_urate p).
Definition set_am_choked (p : peer) (am_chk opt : bool) : peer :=
  mkpeer (p_id p) (p_pieces p) (p_piece_index p) (p_am_interested p) am_chk (p_interested p) (p_choked p)
         opt (p_drate p) (p_urate p).
Definition set_id (p : peer) (id : bytes) : peer :=
  mkpeer (Some id) (p_pieces p) (p_piece_index p) (p_am_interested p) (p_am_choked p) (p_interested p) (p_choked p)
         (p_optimistic p) (p_drate p) (p_urate p).
Definition set_rates (p : peer) (d u : option N) : peer :=
  mkpeer (p_id p) (p_pieces p) (p_piece_index p) (p_am_interested p) (p_am_choked p) (p_interested p) (p_choked p)
         (p_optimistic p) d u.

(* Repair flag of src/peer.rs::handle_piece, pinned by the correspondence. *)
Definition Peer_no_reserve_when_choked : bool := true.

(* Repair flag of Session::unchoked_num (regular slots are counted), pinned by the correspondence. *)
Definition Session_unchoked_counts_regular : bool := true.

Definition step_out := (mgr * reply * list broadcast * list spawn)%type.
Definition out (m : mgr) (r : reply) : result step_out := Ok (m, r, [], []).

(* Peer::handle_piece (after PieceDone / PieceCancel) *)
Definition peer_handle_piece (m : mgr) (a : addr) (p : peer) (pick : option N) : result step_out :=
  match pick with
  | Some c =>
      if Peer_no_reserve_when_choked && p_choked p then
        (* repaired code: a peer that chokes us gets no reservation; the next Unchoke assigns *)
        out (with_peer m a (set_assign p None (p_am_interested p))) RPiece_Ignore
      else
      do st <- upd_status (m_status m) c incr;
      let p' := set_assign p (Some c) (p_am_interested p) in
      let m' := with_peer (with_status m st) a p' in
      if p_choked p then out m' RPiece_Ignore
      else do l <- plen_of m c; out m' (RPiece_Req c l)
  | None =>
      let p' := set_assign p None false in
      out (with_peer m a p') (if p_interested p then RPiece_NotInt else RPiece_Kill)
  end.

(* kill_peer + the rest of handle_kill_req *)
Definition all_have (st : list status) : bool := forallb is_have st.
Definition kill_peer (m : mgr) (a : addr) : result mgr :=
  match pget (m_peers m) a with
  | Some p =>
      do st <- (match p_piece_index p with
                | Some i => match nthN (m_status m) i with
                            | Some s => Ok (if is_have s then m_status m else sset (m_status m) i Missing)
                            | None => Panic
                            end
                | None => Ok (m_status m)
                end);
      Ok (mkmgr st (premove (m_peers m) a) (m_candidates m) (m_round m) (m_extracted m) (m_plens m))
  | None => Ok m
  end.

(* spawn_peer_handler: pop a candidate; skip it if already connected *)
Definition spawn_peer (m : mgr) : mgr * list spawn :=
  match rev (m_candidates m) with
  | [] => (m, [])
  | (a, id) :: rest =>
      let cands := rev rest in
      let m0 := mkmgr (m_status m) (m_peers m) cands (m_round m) (m_extracted m) (m_plens m) in
      match pget (m_peers m) a with
      | Some _ => (m0, [])
      | None => (mkmgr (m_status m) (pset (m_peers m) a (new_peer (Some id) (length (m_plens m)))) cands
                       (m_round m) (m_extracted m) (m_plens m), [SpPeer a])
      end
  end.

(* ---- handle_peer_cmd ------------------------------------------------------------------- *)
(* `pick` is the answer of choose_piece_index (used by the commands that call it). *)
Definition mstep (m : mgr) (c : cmd) (pick : option N) : result step_out :=
  match c with
  | CInit a id =>
      match pget (m_peers m) a with
      | None => Err
      | Some p => out (with_peer m a (set_id p id)) (RBitfield (map is_have (m_status m)))
      end
  | CChoke a =>
      match pget (m_peers m) a with
      | None => Err
      | Some p =>
          do st <- (match p_piece_index p with
                    | Some i => upd_status (m_status m) i decr
                    | None => Ok (m_status m)
                    end);
          out (with_peer (with_status m st) a (set_choked p true)) RNone
      end
  | CUnchoke a =>
      (* choose_piece_index indexes self.peers[addr] first: unknown address panics *)
      match pget (m_peers m) a with
      | None => Panic
      | Some p =>
          match pick with
          | Some c =>
              do st <- upd_status (m_status m) c incr;
              do l <- plen_of m c;
              let r := if p_am_interested p then RUnchoke_Req c l else RUnchoke_IntReq c l in
              out (with_peer (with_status m st) a (set_assign (set_choked p false) (Some c) true)) r
          | None =>
              let r := if p_am_interested p then RUnchoke_NotInt else RUnchoke_Ignore in
              out (with_peer m a (set_assign (set_choked p false) None false)) r
          end
      end
  | CInterested a =>
      match pget (m_peers m) a with
      | None => Err
      | Some p => out (with_peer m a (set_interested p true)) RNone
      end
  | CNotInterested a =>
      match pget (m_peers m) a with
      | None => Panic
      | Some p =>
          let kill := negb (p_am_interested p) &&
                      (match p_piece_index p with None => true | Some _ => false end) &&
                      (match pick with None => true | Some _ => false end) in
          out (with_peer m a (set_interested p false)) (if kill then RNotInt_Kill else RNotInt_Ignore)
      end
  | CHave a i =>
      match pget (m_peers m) a with
      | None => Err
      | Some p =>
          (* self.pieces[piece_index] = true *)
          if len (p_pieces p) <=? i then Panic else
          let p1 := set_pieces p (set_nth (p_pieces p) (N.to_nat i) true) in
          match nthN (m_status m) i with
          | None => Panic
          | Some s =>
              if is_missing s && negb (p_am_interested p) then
                if negb (p_choked p) && (match p_piece_index p with None => true | Some _ => false end) then
                  do l <- plen_of m i;
                  out (with_peer (with_status m (sset (m_status m) i (Reserved 1))) a (set_assign p1 (Some i) true))
                      (RHave_IntReq i l)
                else out (with_peer m a (set_assign p1 (p_piece_index p) true)) RHave_Int
              else out (with_peer m a p1) RHave_Ignore
          end
      end
  | CBitfield a bits =>
      match pget (m_peers m) a with
      | None => Err
      | Some p =>
          match to_vec bits (pieces_n m) with
          | None => Err
          | Some v =>
              (* copy_from_slice: lengths must agree *)
              if negb (len v =? len (p_pieces p)) then Panic else
              let m1 := with_peer m a (set_pieces p v) in
              (* choose_piece_index and unchoked_num see the updated pieces; the pick is checked
                 against m1 by the caller *)
              let unchoked := len (filter (fun kp => negb (p_am_choked (snd kp)) &&
                                            (if Session_unchoked_counts_regular then negb (p_optimistic (snd kp)) else p_optimistic (snd kp)))
                                  (m_peers m1)) in
              let am_int := match pick with Some _ => true | None => false end in
              let with_unchoke := (unchoked <? MAX_UNCHOKED) && p_am_choked p in
              let p2 := set_am (set_pieces p v) am_int (if with_unchoke then false else p_am_choked p) in
              out (with_peer m a p2) (RBitfieldState with_unchoke am_int)
          end
      end
  | CRequest a i =>
      match pget (m_peers m) a with
      | None => Err
      | Some p =>
          if p_am_choked p then out m RReq_Ignore
          else if pieces_n m <=? i then out m RReq_Ignore
          else match nthN (m_status m) i with
               | None => Panic
               | Some s => if is_have s then out m (RReq_Load i) else out m RReq_Ignore
               end
      end
  | CPieceDone a =>
      match pget (m_peers m) a with
      | None => Err
      | Some p =>
          match p_piece_index p with
          | None => Panic                                   (* "Piece downloaded but not requested" *)
          | Some i =>
              match nthN (m_status m) i with
              | None => Panic
              | Some _ =>
                  let m1 := with_status m (sset (m_status m) i Have) in
                  do r <- peer_handle_piece m1 a p pick;
                  let '(m2, rep, _, sp) := r in Ok (m2, rep, [BHave i], sp)
              end
          end
      end
  | CPieceCancel a =>
      match pget (m_peers m) a with
      | None => Err
      | Some p =>
          match p_piece_index p with
          | None => Panic                                   (* "Piece cancelled but not requested" *)
          | Some i =>
              do st <- upd_status (m_status m) i decr;
              peer_handle_piece (with_status m st) a p pick
          end
      end
  | CSyncStats a d u =>
      match pget (m_peers m) a with
      | None => Err
      | Some p => out (with_peer m a (set_rates p d u)) RNone
      end
  | CKill a =>
      do m1 <- kill_peer m a;
      if all_have (m_status m1) then
        Ok (mkmgr (m_status m1) (m_peers m1) (m_candidates m1) (m_round m1) true (m_plens m1), RNone, [],
            if m_extracted m1 then [] else [SpExtractor])
      else match m_candidates m1 with
           | [] => Ok (m1, RNone, [], [SpTracker])
           | _ => let '(m2, sp) := spawn_peer m1 in Ok (m2, RNone, [], sp)
           end
  end.

(* the state choose_piece_index looks at when the command calls it, and for which peer *)
Definition pick_context (m : mgr) (c : cmd) : option (mgr * peer) :=
  let at_ (m' : mgr) (a : addr) := match pget (m_peers m') a with Some p => Some (m', p) | None => None end in
  match c with
  | CUnchoke a | CNotInterested a => at_ m a
  | CBitfield a bits =>
      match pget (m_peers m) a, to_vec bits (pieces_n m) with
      | Some p, Some v => if len v =? len (p_pieces p) then at_ (with_peer m a (set_pieces p v)) a else None
      | _, _ => None
      end
  | CPieceDone a =>
      match pget (m_peers m) a with
      | Some p => match p_piece_index p with
                  | Some i => at_ (with_status m (sset (m_status m) i Have)) a
                  | None => None
                  end
      | None => None
      end
  | CPieceCancel a =>
      match pget (m_peers m) a with
      | Some p => match p_piece_index p with
                  | Some i => match upd_status (m_status m) i decr with
                              | Ok st => at_ (with_status m st) a
                              | _ => None
                              end
                  | None => None
                  end
      | None => None
      end
  | _ => None
  end.

(* ---- change_conn_state ------------------------------------------------------------------- *)
(* rates already in the order the stable descending sort leaves them *)
Fixpoint insert_rate (x : addr * N) (l : list (addr * N)) : list (addr * N) :=
  match l with
  | [] => [x]
  | y :: r => if snd y <=? snd x then x :: l else y :: insert_rate x r    (* stable, descending: inserted from the right *)
  end.
Definition sort_rates (l : list (addr * N)) : list (addr * N) := fold_right insert_rate [] l.

Fixpoint mem_addr (a : addr) (l : list addr) : bool :=
  match l with [] => false | x :: r => (x =? a) || mem_addr a r end.

Fixpoint rotate_go (ps : list (addr * peer)) (order : list addr) (new_opt : list addr) (count : N)
                   (flips : list (addr * bool)) : result (list (addr * peer) * list (addr * bool)) :=
  match order with
  | [] => Ok (ps, flips)
  | a :: rest =>
      match pget ps a with
      | None => Err                                           (* PeerNotFound *)
      | Some p =>
          let '(am, cnt, fl) :=
            if count <? MAX_UNCHOKED then
              if p_am_choked p && p_interested p && negb (mem_addr a new_opt) then (false, count + 1, [(a, false)])
              else if negb (p_am_choked p) && p_interested p then (p_am_choked p, count + 1, [])
              else if negb (p_am_choked p) && negb (p_interested p) then (true, count, [(a, true)])
              else (p_am_choked p, count, [])
            else if negb (p_am_choked p) then (true, count, [(a, true)])
            else (p_am_choked p, count, []) in
          let opt := match new_opt with [] => p_optimistic p | _ => false end in
          rotate_go (pset ps a (set_am_choked p am opt)) rest new_opt cnt (flips ++ fl)
      end
  end.

Fixpoint set_optimistic (ps : list (addr * peer)) (new_opt : list addr) (flips : list (addr * bool))
  : result (list (addr * peer) * list (addr * bool)) :=
  match new_opt with
  | [] => Ok (ps, flips)
  | a :: rest =>
      match pget ps a with
      | None => Err
      | Some p => set_optimistic (pset ps a (set_am_choked p false true)) rest (flips ++ [(a, false)])
      end
  end.

(* HashMap::insert semantics of the broadcast map: the last entry for a key wins *)
Fixpoint map_put (m : list (addr * bool)) (a : addr) (b : bool) : list (addr * bool) :=
  match m with
  | [] => [(a, b)]
  | (k, v) :: r => if k =? a then (k, b) :: r else (k, v) :: map_put r a b
  end.
Definition flips_to_map (fl : list (addr * bool)) : list (addr * bool) :=
  fold_left (fun m kv => map_put m (fst kv) (snd kv)) fl [].

Definition change_conn_state (m : mgr) (rates : list (addr * N)) (new_opt : list addr)
  : result (mgr * list (addr * bool)) :=
  do r1 <- rotate_go (m_peers m) (map fst (sort_rates rates)) new_opt 0 [];
  do r2 <- set_optimistic (fst r1) new_opt (snd r1);
  Ok (mkmgr (m_status m) (fst r2) (m_candidates m) (m_round m) (m_extracted m) (m_plens m), flips_to_map (snd r2)).

(* ---- timeout_change_conn_state: the rotation timer's own wrapper ------------------------------ *)
(* the rates it ranks by: what the peers reported (SyncStats) -- download rates once everything is owned, upload rates
   before -- in the iteration order of the peer map (a HashMap in the code: any order; here the model's list order, and
   the caller may pass any permutation); None while some peer has not reported both rates *)
Definition timer_rates (m : mgr) : option (list (addr * N)) :=
  let seeder := forallb is_have (m_status m) in
  if forallb (fun kp => match p_drate (snd kp), p_urate (snd kp) with Some _, Some _ => true | _, _ => false end) (m_peers m)
  then Some (map (fun kp => (fst kp, match (if seeder then p_drate (snd kp) else p_urate (snd kp)) with Some r => r | None => 0 end))
                 (m_peers m))
  else None.
(* new_optimistic_peers: one peer drawn at random among those we choke that are interested, none if there is none *)
Definition optimistic_candidates (m : mgr) : list addr :=
  map fst (filter (fun kp => p_am_choked (snd kp) && p_interested (snd kp)) (m_peers m)).
Definition optimistic_pick_ok (m : mgr) (pick : list addr) : bool :=
  match optimistic_candidates m, pick with
  | [], [] => true
  | _ :: _, [a] => mem_addr a (optimistic_candidates m)
  | _, _ => false
  end.
(* `order`: the rates in the order the code's iteration yields them; `pick`: what new_optimistic_peers draws (used in
   round 0 only).  The round advances first; nothing else happens while rates are missing; the broadcast is the map *)
Definition timer_tick (m : mgr) (order : list (addr * N)) (pick : list addr) : result (mgr * option (list (addr * bool))) :=
  let r := (m_round m + 1) mod MAX_OPTIMISTIC_ROUNDS in
  let m1 := mkmgr (m_status m) (m_peers m) (m_candidates m) r (m_extracted m) (m_plens m) in
  match timer_rates m with
  | None => Ok (m1, None)
  | Some _ => do x <- change_conn_state m1 order (if r =? 0 then pick else []); Ok (fst x, Some (snd x))
  end.

(* ---- handle_tracker_cmd (TrackerResp): candidates and how many handlers are spawned ------- *)
Fixpoint spawn_n (k : nat) (m : mgr) (acc : list spawn) : mgr * list spawn :=
  match k with
  | O => (m, acc)
  | S k' => let '(m', sp) := spawn_peer m in spawn_n k' m' (acc ++ sp)
  end.
Definition handle_tracker_resp (m : mgr) (peers : list (addr * bytes)) : mgr * list spawn :=
  let m1 := mkmgr (m_status m) (m_peers m) (m_candidates m ++ peers) (m_round m) (m_extracted m) (m_plens m) in
  let am_int := len (filter (fun kp => p_am_interested (snd kp)) (m_peers m)) in
  let want := MAX_UNCHOKED + MAX_OPTIMISTIC in
  spawn_n (N.to_nat (want - am_int)) m1 [].

(* ---- spawn_peer_listener: an incoming connection from address a ------------------------------ *)
(* refused while MAX_NOT_INTERESTED connected peers are ones we are not interested in; otherwise a connection task is
   started and a fresh peer entry is put into the map under the remote address.  Repair flag, pinned by the correspondence:
   an address that is still connected is not taken a second time (pinned code: `peers.insert` replaced the entry of the
   live connection -- its assignment and choke state were forgotten while its task went on sending commands). *)
Definition Session_listener_skips_connected : bool := true.
Definition accept_peer_with (skip : bool) (m : mgr) (a : addr) : mgr * list spawn :=
  let not_int := len (filter (fun kp => negb (p_am_interested (snd kp))) (m_peers m)) in
  if MAX_NOT_INTERESTED <=? not_int then (m, [])
  else if skip && (match pget (m_peers m) a with Some _ => true | None => false end) then (m, [])
  else (with_peer m a (new_peer None (length (m_plens m))), [SpPeer a]).
Definition accept_peer := accept_peer_with Session_listener_skips_connected.

(* ---- choose_piece_index with the shuffle made explicit ------------------------------------ *)
(* rarest: (piece_index, count) for the desired pieces, in index order *)
Definition rarest_list (m : mgr) : list (nat * N) :=
  map (fun i => (i, count_have m i)) (filter (desired m) (indices m)).
(* sort_by count, stable (elements are inserted from the right) *)
Fixpoint insert_cnt (x : nat * N) (l : list (nat * N)) : list (nat * N) :=
  match l with
  | [] => [x]
  | y :: r => if snd x <=? snd y then x :: l else y :: insert_cnt x r
  end.
Definition sort_cnt (l : list (nat * N)) : list (nat * N) := fold_right insert_cnt [] l.
(* `shuffled` is rarest_list after rarest.shuffle(..): any permutation of it *)
Definition choose_with (shuffled : list (nat * N)) (p : peer) : option N :=
  match find (fun ic => (0 <? snd ic) && nth (fst ic) (p_pieces p) false) (sort_cnt shuffled) with
  | Some (i, _) => Some (N.of_nat i)
  | None => None
  end.
