(* TraceProofs.v — C20 over whole event sequences of one connection task.

   run: the task handles a list of (event, manager answer) pairs, stopping at the first event that ends it.
   (1) once a valid handshake has arrived it stays arrived; (2) liveness of the connection: after any run that
   contains a frame other than a keep-alive and no timer tick after it, the next tick keeps the connection and emits
   a keep-alive -- so a connection that gets such a frame in every interval is never closed for inactivity, however
   many intervals pass; (3) silence: from a freshly reset count, through any number of keep-alive frames, the third
   tick closes the connection. *)
From Rdest Require Import Base BaseProofs Consts Wire Manager Handler HandlerProofs PairProofs.
From Coq Require Import ZifyBool ZifyN ZifyNat.
Open Scope N_scope.

Section Trace.
  Variable sha1 : bytes -> bytes.
  Variable cf : hconf.
  Variable disk : bytes -> option bytes.
  Variable ovf : bool.
  Notation hs := (hstep sha1 cf disk ovf).

  Lemma apf_hs s0 pre r s' acts :
    (after_piece_finish cf s0 pre r = HCont s' acts \/ after_piece_finish cf s0 pre r = HEnd s' acts true) ->
    h_hs_done s' = h_hs_done s0.
  Proof.
    unfold after_piece_finish. destruct r as [[| | | | | | | | | | | | | |i len| | |]|];
      try (destruct (new_piece_request _ _ _ _) as [r0 a0]); intros [H|H]; try discriminate;
      injection H as <- _; reflexivity.
  Qed.

  Lemma init_handshake_hs s id r s' acts : init_handshake cf s id r = HCont s' acts -> h_hs_done s' = h_hs_done s.
  Proof. unfold init_handshake. destruct r as [[]|]; try discriminate. intros [= <- _]. reflexivity. Qed.

  Theorem hs_done_stays s ev r s' acts : hs s ev r = HCont s' acts -> h_hs_done s = true -> h_hs_done s' = true.
  Proof.
    intros H Hd. destruct ev as [|m| | | |i|[[|]|]]; cbn [hstep] in H.
    - destruct (h_peer_id s); [apply init_handshake_hs in H; congruence | injection H as <- _; exact Hd].
    - unfold handle_frame in H.
      destruct (Handler_gate_on_handshake && negb (h_hs_done s) && negb match m with Handshake _ _ => true | _ => false end); [discriminate|].
      destruct m as [ih pid| | | | | |idx|bs|ri rb rl|pi pb blk|ci cb cl].
      + destruct (negb (bytes_eqb ih (c_info_hash cf))); [discriminate|].
        destruct (h_peer_id (set_ka s 0)).
        * destruct (negb (bytes_eqb pid b)); [discriminate|]. injection H as <- _. reflexivity.
        * apply init_handshake_hs in H. rewrite H. reflexivity.
      + injection H as <- _. exact Hd.
      + injection H as <- _. exact Hd.
      + destruct (Handler_ignore_repeated_unchoke && negb (h_choked (set_ka s 0))); [injection H as <- _; exact Hd|].
        destruct r as [[| |i len|i len| | | | | | | | | | | | | |]|]; try discriminate.
        * destruct (new_piece_request _ _ _ _) as [r0 a0]. injection H as <- _. exact Hd.
        * destruct (new_piece_request _ _ _ _) as [r0 a0]. injection H as <- _. exact Hd.
        * injection H as <- _. exact Hd.
        * injection H as <- _. exact Hd.
      + injection H as <- _. exact Hd.
      + destruct r as [[]|]; try discriminate. injection H as <- _. exact Hd.
      + destruct (c_pieces_num cf <=? idx); [discriminate|].
        destruct r as [[| | | | | | | |i len| | | | | | | | |]|]; try discriminate.
        * destruct (new_piece_request _ _ _ _) as [r0 a0]. injection H as <- _. exact Hd.
        * injection H as <- _. exact Hd.
        * injection H as <- _. exact Hd.
      + destruct (negb (bitfield_validate bs (c_pieces_num cf))); [discriminate|].
        destruct r as [[]|]; try discriminate. injection H as <- _. exact Hd.
      + unfold handle_request in H.
        destruct (load_tx cf disk (set_ka s 0) ri r) as [[t|]| | |]; try discriminate.
        * destruct (request_validate cf ovf ri rb rl (tx_index t) (len (tx_buff t))); try discriminate.
          destruct (len (tx_buff t) <? rb + rl); [discriminate|]. injection H as <- _. exact Hd.
        * injection H as <- _. exact Hd.
      + unfold handle_piece in H. cbn [h_rx set_ka] in H.
        destruct (h_rx s) as [rx|]; [|injection H as <- _; exact Hd].
        destruct (negb (is_requested rx pi pb blk)); [injection H as <- _; exact Hd|].
        cbn [rx_left rx_hash] in H.
        destruct (rx_left rx) as [|l0 lr].
        * destruct (filter _ (rx_requested rx)) as [|q0 qr].
          -- destruct (negb (bytes_eqb _ _)); [discriminate|]. apply (fun h => apf_hs _ _ _ _ _ (or_introl h)) in H. rewrite H. exact Hd.
          -- destruct (send_request _) as [r2 a]. injection H as <- _. exact Hd.
        * destruct (send_request _) as [r2 a]. injection H as <- _. exact Hd.
      + injection H as <- _. exact Hd.
    - discriminate.
    - change Handler_recv_error_terminates with true in H. discriminate.
    - destruct (h_keep_alive s =? peer_handler_KEEP_ALIVE_LIMIT); [discriminate|]. injection H as <- _. exact Hd.
    - assert (Ann : forall s0 s2 a2, (if h_choked s0 then (set_buff s0 (h_msg_buff s0 ++ [i]), []) else (s0, [ASend (Wire.Have i)])) = (s2, a2) ->
                    h_hs_done s2 = h_hs_done s0).
      { intros s0 s2 a2. destruct (h_choked s0); intros [= <- _]; reflexivity. }
      destruct (h_rx s) as [rx|].
      + destruct (rx_index rx =? i).
        * destruct (after_piece_finish cf (set_rx s None) _ r) as [s1 a1|s1 a1 [|]|] eqn:E; try discriminate.
          -- destruct (if h_choked s1 then _ else _) as [s2 a2] eqn:E2. injection H as <- _.
             rewrite (Ann _ _ _ E2), (apf_hs _ _ _ _ _ (or_introl E)). exact Hd.
          -- destruct (if h_choked s1 then _ else _) as [s2 a2] eqn:E2. injection H as <- _.
             rewrite (Ann _ _ _ E2), (apf_hs _ _ _ _ _ (or_intror E)). exact Hd.
        * destruct (if h_choked s then _ else _) as [s2 a2] eqn:E2. injection H as <- _. rewrite (Ann _ _ _ E2). exact Hd.
      + destruct (if h_choked s then _ else _) as [s2 a2] eqn:E2. injection H as <- _. rewrite (Ann _ _ _ E2). exact Hd.
    - injection H as <- _. exact Hd.
    - injection H as <- _. exact Hd.
    - injection H as <- _. exact Hd.
  Qed.

  (* handle a list of events; None as soon as one of them ends the task *)
  Fixpoint run (s : hst) (evs : list (event * option reply)) : option hst :=
    match evs with
    | [] => Some s
    | (ev, r) :: rest => match hs s ev r with HCont s' _ => run s' rest | _ => None end
    end.

  Definition no_tick (evs : list (event * option reply)) : Prop := forall ev r, In (ev, r) evs -> ev <> ETick.

  Lemma run_hs_done : forall evs s s', run s evs = Some s' -> h_hs_done s = true -> h_hs_done s' = true.
  Proof.
    induction evs as [|[ev r] evs IH]; intros s s' H Hd; cbn [run] in H; [injection H as <-; exact Hd|].
    destruct (hs s ev r) as [s1 a1| |] eqn:E; try discriminate. apply (IH s1 s' H). exact (hs_done_stays s ev r s1 a1 E Hd).
  Qed.

  Lemma run_no_tick_ka : forall evs s s', run s evs = Some s' -> h_hs_done s = true -> no_tick evs ->
    h_keep_alive s' <= h_keep_alive s.
  Proof.
    induction evs as [|[ev r] evs IH]; intros s s' H Hd Hn; cbn [run] in H; [injection H as <-; lia|].
    destruct (hs s ev r) as [s1 a1| |] eqn:E; try discriminate.
    assert (Hev : ev <> ETick) by (apply (Hn ev r); left; reflexivity).
    assert (H1 : h_keep_alive s1 <= h_keep_alive s).
    { apply (non_tick_ka sha1 cf disk ovf s ev r s1 Hev Hd). rewrite E. reflexivity. }
    assert (H2 : h_keep_alive s' <= h_keep_alive s1).
    { apply (IH s1 s' H); [exact (hs_done_stays s ev r s1 a1 E Hd) | intros e0 r0 Hin; apply (Hn e0 r0); right; exact Hin]. }
    lia.
  Qed.

  (* (2) a connection that received a frame other than a keep-alive since the last tick survives the next tick *)
  Theorem live_interval_survives s before m r after s' r2 :
    h_hs_done s = true -> m <> KeepAlive -> no_tick after ->
    run s (before ++ (EFrame m, r) :: after) = Some s' ->
    hs s' ETick r2 = HCont (set_ka s' 1) [ASend KeepAlive].
  Proof.
    intros Hd Hm Hn H.
    assert (Split : forall evs1 s0 evs2 s2, run s0 (evs1 ++ evs2) = Some s2 -> exists s1, run s0 evs1 = Some s1 /\ run s1 evs2 = Some s2).
    { induction evs1 as [|[e0 r0] evs1 IH]; intros s0 evs2 s2 H0; cbn [app run] in *; [exists s0; split; [reflexivity | exact H0]|].
      destruct (hs s0 e0 r0) as [s1 a1| |]; try discriminate. exact (IH s1 evs2 s2 H0). }
    destruct (Split _ _ _ _ H) as (s1 & R1 & R2). cbn [run] in R2.
    destruct (hs s1 (EFrame m) r) as [s2 a2| |] eqn:E; try discriminate.
    assert (Hd1 : h_hs_done s1 = true) by exact (run_hs_done _ _ _ R1 Hd).
    assert (K0 : h_keep_alive s2 = 0).
    { cbn [hstep] in E. apply (frame_resets sha1 cf disk ovf s1 m r s2 Hm). rewrite E. reflexivity. }
    assert (Hd2 : h_hs_done s2 = true) by exact (hs_done_stays _ _ _ _ _ E Hd1).
    pose proof (run_no_tick_ka _ _ _ R2 Hd2 Hn) as K.
    assert (K' : h_keep_alive s' = 0) by lia.
    rewrite (tick_emits sha1 cf disk ovf s' r2) by (rewrite K'; discriminate). rewrite K'. reflexivity.
  Qed.

  (* (3) silence: keep-alive frames change nothing; from a count of 0 the third tick closes the connection *)
  Definition only_keepalives (evs : list (event * option reply)) : Prop :=
    forall ev r, In (ev, r) evs -> ev = EFrame KeepAlive.

  Lemma keepalive_noop s r : h_hs_done s = true -> hs s (EFrame KeepAlive) r = HCont s [].
  Proof. intros Hd. cbn [hstep]. unfold handle_frame. rewrite Hd. reflexivity. Qed.

  Lemma run_keepalives : forall evs s, h_hs_done s = true -> only_keepalives evs -> run s evs = Some s.
  Proof.
    induction evs as [|[ev r] evs IH]; intros s Hd Ho; [reflexivity|]. cbn [run].
    rewrite (Ho ev r (or_introl eq_refl)), (keepalive_noop s r Hd).
    apply IH; [exact Hd | intros e0 r0 Hin; apply (Ho e0 r0); right; exact Hin].
  Qed.

  Lemma run_app : forall evs1 s0 s1 evs2, run s0 evs1 = Some s1 -> run s0 (evs1 ++ evs2) = run s1 evs2.
  Proof.
    induction evs1 as [|[e0 r0] evs1 IH]; intros s0 s1 evs2 H; cbn [app run] in *; [injection H as <-; reflexivity|].
    destruct (hs s0 e0 r0) as [s2 a2| |]; try discriminate. exact (IH s2 s1 evs2 H).
  Qed.

  Theorem silent_run_closes s k1 k2 k3 r1 r2 r3 :
    h_hs_done s = true -> h_keep_alive s = 0 -> only_keepalives k1 -> only_keepalives k2 -> only_keepalives k3 ->
    run s (k1 ++ (ETick, r1) :: k2 ++ (ETick, r2) :: k3) = Some (set_ka s 2) /\
    hs (set_ka s 2) ETick r3 = HEnd (set_ka s 2) [] false.
  Proof.
    intros Hd H0 O1 O2 O3. destruct (silent_closes sha1 cf disk ovf s r1 H0) as (T1 & _ & _ & _).
    destruct (silent_closes sha1 cf disk ovf s r2 H0) as (_ & T2 & _ & _).
    destruct (silent_closes sha1 cf disk ovf s r3 H0) as (_ & _ & T3 & _).
    split; [|exact T3].
    rewrite (run_app k1 s s _ (run_keepalives k1 s Hd O1)). cbn [run]. rewrite T1.
    assert (Hd1 : h_hs_done (set_ka s 1) = true) by exact Hd.
    rewrite (run_app k2 (set_ka s 1) (set_ka s 1) _ (run_keepalives k2 _ Hd1 O2)). cbn [run]. rewrite T2.
    apply run_keepalives; [exact Hd | exact O3].
  Qed.

  (* ---- C11 over whole runs: announcements are neither lost, duplicated nor reordered on a connection ---------- *)
  Definition haves_sent (acts : list action) : list N :=
    flat_map (fun x => match x with ASend (Wire.Have i) => [i] | _ => [] end) acts.
  Definition AnnInv (s : hst) : Prop := h_choked s = false -> h_msg_buff s = [].

  Lemma haves_app a b : haves_sent (a ++ b) = haves_sent a ++ haves_sent b.
  Proof. unfold haves_sent. apply flat_map_app. Qed.
  Lemma haves_flush l : haves_sent (map (fun i => ASend (Wire.Have i)) l) = l.
  Proof.
    induction l as [|x l IH]; [reflexivity|]. cbn [map].
    change (haves_sent (ASend (Wire.Have x) :: map (fun i => ASend (Wire.Have i)) l)) with (x :: haves_sent (map (fun i => ASend (Wire.Have i)) l)).
    rewrite IH. reflexivity.
  Qed.
  Lemma haves_cancels i (l : list (N * N)) : haves_sent (map (fun bl => ASend (Cancel i (fst bl) (snd bl))) l) = [].
  Proof. induction l as [|x l IH]; [reflexivity|]. exact IH. Qed.
  Lemma send_request_nohave r r2 a : send_request r = (r2, a) -> haves_sent a = [].
  Proof. unfold send_request. destruct (rx_left r) as [|[b l] rest]; intros [= _ <-]; reflexivity. Qed.
  Lemma npr_nohave b i l r a : new_piece_request cf b i l = (r, a) -> haves_sent a = [].
  Proof.
    unfold new_piece_request. destruct (send_request (new_rx cf i l)) as [r1 a1] eqn:E1.
    destruct (send_request r1) as [r2 a2] eqn:E2. intros [= _ <-].
    rewrite !haves_app, (send_request_nohave _ _ _ E1), (send_request_nohave _ _ _ E2). destruct b; reflexivity.
  Qed.
  Lemma apf_ann s0 pre r s' acts :
    (after_piece_finish cf s0 pre r = HCont s' acts \/ after_piece_finish cf s0 pre r = HEnd s' acts true) ->
    haves_sent acts = haves_sent pre /\ h_choked s' = h_choked s0 /\ h_msg_buff s' = h_msg_buff s0.
  Proof.
    unfold after_piece_finish. destruct r as [[| | | | | | | | | | | | | |i len| | |]|].
    all: try (intros [H|H]; discriminate).
    - destruct (new_piece_request cf false i len) as [r0 a0] eqn:E. intros [H|H]; [|discriminate]. injection H as <- <-.
      rewrite haves_app, (npr_nohave _ _ _ _ _ E), app_nil_r. repeat split.
    - intros [H|H]; [|discriminate]. injection H as <- <-. rewrite haves_app. cbn. rewrite app_nil_r. repeat split.
    - intros [H|H]; [discriminate|]. injection H as <- <-. repeat split.
    - intros [H|H]; [|discriminate]. injection H as <- <-. repeat split.
  Qed.

  Definition bhave_of (ev : event) : list N := match ev with EBroadHave i => [i] | _ => [] end.

  Theorem announce_step s ev r s' acts : hs s ev r = HCont s' acts -> AnnInv s ->
    haves_sent acts ++ h_msg_buff s' = h_msg_buff s ++ bhave_of ev /\ AnnInv s'.
  Proof.
    intros H HI.
    assert (Keep : forall s1 a1, h_choked s1 = h_choked s -> h_msg_buff s1 = h_msg_buff s -> haves_sent a1 = [] ->
              haves_sent a1 ++ h_msg_buff s1 = h_msg_buff s ++ [] /\ AnnInv s1).
    { intros s1 a1 Ec Eb Ea. rewrite Ea, Eb, app_nil_r. split; [reflexivity|]. unfold AnnInv. rewrite Ec, Eb. exact HI. }
    assert (Init : forall s0 id s1 a1, init_handshake cf s0 id r = HCont s1 a1 -> s1 = s0 /\ haves_sent a1 = []).
    { intros s0 id s1 a1. unfold init_handshake. destruct r as [[]|]; try discriminate. intros [= <- <-]. split; reflexivity. }
    destruct ev as [|m| | | |i|[[|]|]]; cbn [hstep bhave_of] in *.
    - destruct (h_peer_id s); [destruct (Init _ _ _ _ H) as [-> Ea]; apply Keep; [reflexivity | reflexivity | exact Ea] | injection H as <- <-; apply Keep; reflexivity].
    - unfold handle_frame in H.
      destruct (Handler_gate_on_handshake && negb (h_hs_done s) && negb match m with Handshake _ _ => true | _ => false end); [discriminate|].
      destruct m as [ih pid| | | | | |idx|bs|ri rb rl|pi pb blk|ci cb cl].
      + destruct (negb (bytes_eqb ih (c_info_hash cf))); [discriminate|].
        destruct (h_peer_id (set_ka s 0)).
        * destruct (negb (bytes_eqb pid b)); [discriminate|]. injection H as <- <-. apply Keep; reflexivity.
        * destruct (Init _ _ _ _ H) as [-> Ea]. apply Keep; [reflexivity | reflexivity | exact Ea].
      + injection H as <- <-. apply Keep; reflexivity.
      + (* Choke *) injection H as <- <-. cbn [haves_sent flat_map app set_hchoked set_ka h_msg_buff]. rewrite app_nil_r.
        split; [reflexivity|]. unfold AnnInv. cbn. discriminate.
      + (* Unchoke *)
        destruct (Handler_ignore_repeated_unchoke && negb (h_choked (set_ka s 0))); [injection H as <- <-; apply Keep; reflexivity|].
        assert (Fl : forall x s1, haves_sent x = [] -> h_choked s1 = false -> h_msg_buff s1 = [] ->
                  haves_sent ((map (fun i => ASend (Wire.Have i)) (h_msg_buff (set_ka s 0)) ++ [ACmd KUnchoke]) ++ x) ++ h_msg_buff s1 = h_msg_buff s ++ [] /\ AnnInv s1).
        { intros x s1 Ex Ec Eb. rewrite !haves_app, haves_flush, Ex, Eb. cbn [set_ka h_msg_buff haves_sent flat_map app]. rewrite !app_nil_r.
          split; [reflexivity|]. intros _. exact Eb. }
        destruct r as [[| |i len|i len| | | | | | | | | | | | | |]|]; try discriminate.
        * destruct (new_piece_request cf true i len) as [r0 a0] eqn:E. injection H as <- <-. apply Fl; [exact (npr_nohave _ _ _ _ _ E) | reflexivity | reflexivity].
        * destruct (new_piece_request cf false i len) as [r0 a0] eqn:E. injection H as <- <-. apply Fl; [exact (npr_nohave _ _ _ _ _ E) | reflexivity | reflexivity].
        * injection H as <- <-. apply Fl; reflexivity.
        * injection H as <- <-. rewrite <- (app_nil_r (_ ++ [ACmd KUnchoke])). apply Fl; reflexivity.
      + injection H as <- <-. apply Keep; reflexivity.
      + destruct r as [[]|]; try discriminate. injection H as <- <-. apply Keep; reflexivity.
      + destruct (c_pieces_num cf <=? idx); [discriminate|].
        destruct r as [[| | | | | | | |i len| | | | | | | | |]|]; try discriminate.
        * destruct (new_piece_request cf true i len) as [r0 a0] eqn:E. injection H as <- <-.
          apply Keep; [reflexivity | reflexivity | cbn [app]; change (haves_sent (ACmd (KHave idx) :: a0)) with (haves_sent a0); exact (npr_nohave _ _ _ _ _ E)].
        * injection H as <- <-. apply Keep; reflexivity.
        * injection H as <- <-. apply Keep; reflexivity.
      + destruct (negb (bitfield_validate bs (c_pieces_num cf))); [discriminate|].
        destruct r as [[]|]; try discriminate. injection H as <- <-.
        apply Keep; [reflexivity | reflexivity | destruct with_unchoke, am_interested; reflexivity].
      + unfold handle_request in H.
        assert (P : haves_sent (if need_ask (set_ka s 0) ri then [ACmd (KRequest ri)] else []) = []) by (destruct (need_ask (set_ka s 0) ri); reflexivity).
        destruct (load_tx cf disk (set_ka s 0) ri r) as [[t|]| | |]; try discriminate.
        * destruct (request_validate cf ovf ri rb rl (tx_index t) (len (tx_buff t))); try discriminate.
          destruct (len (tx_buff t) <? rb + rl); [discriminate|]. injection H as <- <-.
          apply Keep; [reflexivity | reflexivity | rewrite haves_app, P; reflexivity].
        * injection H as <- <-. apply Keep; [reflexivity | reflexivity | exact P].
      + unfold handle_piece in H. cbn [h_rx set_ka] in H.
        destruct (h_rx s) as [rx|]; [|injection H as <- <-; apply Keep; reflexivity].
        destruct (negb (is_requested rx pi pb blk)); [injection H as <- <-; apply Keep; reflexivity|].
        cbn [rx_left rx_hash] in H.
        destruct (rx_left rx) as [|l0 lr].
        * destruct (filter _ (rx_requested rx)) as [|q0 qr].
          -- destruct (negb (bytes_eqb _ _)); [discriminate|].
             destruct (apf_ann _ _ _ _ _ (or_introl H)) as (Ea & Ec & Eb). apply Keep; [exact Ec | exact Eb | rewrite Ea; reflexivity].
          -- destruct (send_request _) as [r2 a] eqn:E. injection H as <- <-. apply Keep; [reflexivity | reflexivity | exact (send_request_nohave _ _ _ E)].
        * destruct (send_request _) as [r2 a] eqn:E. injection H as <- <-. apply Keep; [reflexivity | reflexivity | exact (send_request_nohave _ _ _ E)].
      + injection H as <- <-. apply Keep; reflexivity.
    - discriminate.
    - change Handler_recv_error_terminates with true in H. discriminate.
    - destruct (h_keep_alive s =? peer_handler_KEEP_ALIVE_LIMIT); [discriminate|]. injection H as <- <-. apply Keep; reflexivity.
    - (* a piece completed on another connection *)
      assert (Ann : forall s0 pre s2 a2, h_choked s0 = h_choked s -> h_msg_buff s0 = h_msg_buff s -> haves_sent pre = [] ->
                (if h_choked s0 then (set_buff s0 (h_msg_buff s0 ++ [i]), []) else (s0, [ASend (Wire.Have i)])) = (s2, a2) ->
                haves_sent (pre ++ a2) ++ h_msg_buff s2 = h_msg_buff s ++ [i] /\ AnnInv s2).
      { intros s0 pre s2 a2 Ec Eb Ep. rewrite haves_app, Ep. destruct (h_choked s0) eqn:E0; intros [= <- <-].
        - cbn [haves_sent flat_map app set_buff h_msg_buff]. rewrite Eb. split; [reflexivity|]. unfold AnnInv. cbn. rewrite E0. discriminate.
        - cbn [haves_sent flat_map app]. assert (B0 : h_msg_buff s = []) by (apply HI; congruence).
          rewrite Eb, B0. split; [reflexivity|]. intros _. rewrite Eb. exact B0. }
      destruct (h_rx s) as [rx|].
      + destruct (rx_index rx =? i).
        * destruct (after_piece_finish cf (set_rx s None) _ r) as [s1 a1|s1 a1 [|]|] eqn:E; try discriminate.
          -- destruct (apf_ann _ _ _ _ _ (or_introl E)) as (Ea & Ec & Eb).
             destruct (if h_choked s1 then _ else _) as [s2 a2] eqn:E2. injection H as <- <-.
             apply (Ann s1 a1 s2 a2 Ec Eb); [|exact E2]. rewrite Ea, haves_app, haves_cancels. reflexivity.
          -- destruct (apf_ann _ _ _ _ _ (or_intror E)) as (Ea & Ec & Eb).
             destruct (if h_choked s1 then _ else _) as [s2 a2] eqn:E2. injection H as <- <-.
             apply (Ann s1 a1 s2 a2 Ec Eb); [|exact E2]. rewrite Ea, haves_app, haves_cancels. reflexivity.
        * destruct (if h_choked s then _ else _) as [s2 a2] eqn:E2. injection H as <- <-.
          apply (Ann s [] s2 a2 eq_refl eq_refl eq_refl E2).
      + destruct (if h_choked s then _ else _) as [s2 a2] eqn:E2. injection H as <- <-.
        apply (Ann s [] s2 a2 eq_refl eq_refl eq_refl E2).
    - injection H as <- <-. apply Keep; reflexivity.
    - injection H as <- <-. apply Keep; reflexivity.
    - injection H as <- <-. apply Keep; reflexivity.
  Qed.

  (* the same over a whole run, collecting what was sent and what was broadcast *)
  Fixpoint run_acts (s : hst) (evs : list (event * option reply)) : option (hst * list action) :=
    match evs with
    | [] => Some (s, [])
    | (ev, r) :: rest => match hs s ev r with
                         | HCont s' a => match run_acts s' rest with Some (s2, a2) => Some (s2, a ++ a2) | None => None end
                         | _ => None
                         end
    end.

  Theorem announcements_in_order : forall evs s s' acts, run_acts s evs = Some (s', acts) -> AnnInv s ->
    haves_sent acts ++ h_msg_buff s' = h_msg_buff s ++ flat_map (fun e => bhave_of (fst e)) evs /\ AnnInv s'.
  Proof.
    induction evs as [|[ev r] evs IH]; intros s s' acts H HI; cbn [run_acts] in H.
    - injection H as <- <-. cbn. rewrite app_nil_r. split; [reflexivity | exact HI].
    - destruct (hs s ev r) as [s1 a1| |] eqn:E; try discriminate.
      destruct (run_acts s1 evs) as [[s2 a2]|] eqn:E2; [|discriminate]. injection H as <- <-.
      destruct (announce_step s ev r s1 a1 E HI) as [A1 I1]. destruct (IH s1 s2 a2 E2 I1) as [A2 I2].
      split; [|exact I2]. cbn [flat_map fst]. rewrite haves_app, <- app_assoc, A2, !app_assoc, A1. reflexivity.
  Qed.

  (* from a fresh connection: everything broadcast has been sent, in order, except what is still held back because the
     peer chokes us -- and nothing is held back while it does not *)
  Corollary announcements_complete evs pid s' acts : run_acts (h_init pid) evs = Some (s', acts) ->
    haves_sent acts ++ h_msg_buff s' = flat_map (fun e => bhave_of (fst e)) evs /\ (h_choked s' = false -> h_msg_buff s' = []).
  Proof. intros H. apply (announcements_in_order evs (h_init pid) s' acts H). intros Hc. discriminate. Qed.

  (* ---- C08: the handshake gate opens only through a valid handshake ------------------------------------------ *)
  Lemma beq_eq (a b : bytes) : bytes_eqb a b = true -> a = b.
  Proof.
    revert b. induction a as [|x a IH]; intros [|y b]; cbn; try discriminate; [reflexivity|].
    intros H. apply andb_true_iff in H. destruct H as [H1 H2]. apply N.eqb_eq in H1. rewrite H1, (IH b H2). reflexivity.
  Qed.

  Theorem gate_opens_only_by_valid_handshake s ev r s' acts :
    hs s ev r = HCont s' acts -> h_hs_done s = false -> h_hs_done s' = true ->
    exists pid, ev = EFrame (Handshake (c_info_hash cf) pid) /\ (forall e, h_peer_id s = Some e -> pid = e).
  Proof.
    intros H Hd Hd'.
    assert (No : forall s1, h_hs_done s1 = h_hs_done s -> s' = s1 -> False) by (intros s1 E ->; congruence).
    destruct ev as [|m| | | |i|[[|]|]]; cbn [hstep] in H.
    - exfalso. destruct (h_peer_id s); [apply (No s); [reflexivity|]; unfold init_handshake in H; destruct r as [[]|]; try discriminate; injection H as <- _; reflexivity
                                        | injection H as <- _; apply (No s); reflexivity].
    - unfold handle_frame in H. rewrite Hd in H. cbn [negb andb] in H.
      change Handler_gate_on_handshake with true in H. cbn [andb] in H.
      destruct m as [ih pid| | | | | |idx|bs|ri rb rl|pi pb blk|ci cb cl]; try discriminate.
      destruct (bytes_eqb ih (c_info_hash cf)) eqn:Eh; cbn [negb] in H; [|discriminate].
      apply beq_eq in Eh. subst ih. exists pid. split; [reflexivity|].
      intros e He. cbn [set_ka h_peer_id] in H. rewrite He in H.
      destruct (bytes_eqb pid e) eqn:Ep; cbn [negb] in H; [apply beq_eq in Ep; exact Ep | discriminate].
    - discriminate.
    - change Handler_recv_error_terminates with true in H. discriminate.
    - exfalso. destruct (h_keep_alive s =? peer_handler_KEEP_ALIVE_LIMIT); [discriminate|]. injection H as <- _. apply (No (set_ka s (h_keep_alive s + 1))); reflexivity.
    - exfalso.
      assert (Ann : forall s0 s2 a2, (if h_choked s0 then (set_buff s0 (h_msg_buff s0 ++ [i]), []) else (s0, [ASend (Wire.Have i)])) = (s2, a2) ->
                    h_hs_done s2 = h_hs_done s0).
      { intros s0 s2 a2. destruct (h_choked s0); intros [= <- _]; reflexivity. }
      destruct (h_rx s) as [rx|].
      + destruct (rx_index rx =? i).
        * destruct (after_piece_finish cf (set_rx s None) _ r) as [s1 a1|s1 a1 [|]|] eqn:E; try discriminate.
          -- destruct (if h_choked s1 then _ else _) as [s2 a2] eqn:E2. injection H as <- _.
             rewrite (Ann _ _ _ E2), (apf_hs _ _ _ _ _ (or_introl E)) in Hd'. cbn in Hd'. congruence.
          -- destruct (if h_choked s1 then _ else _) as [s2 a2] eqn:E2. injection H as <- _.
             rewrite (Ann _ _ _ E2), (apf_hs _ _ _ _ _ (or_intror E)) in Hd'. cbn in Hd'. congruence.
        * destruct (if h_choked s then _ else _) as [s2 a2] eqn:E2. injection H as <- _. rewrite (Ann _ _ _ E2) in Hd'. congruence.
      + destruct (if h_choked s then _ else _) as [s2 a2] eqn:E2. injection H as <- _. rewrite (Ann _ _ _ E2) in Hd'. congruence.
    - exfalso. injection H as <- _. cbn in Hd'. congruence.
    - exfalso. injection H as <- _. congruence.
    - exfalso. injection H as <- _. congruence.
  Qed.
End Trace.
