(* C09 — uploads return exactly the requested stored bytes, or nothing. *)
From Rdest Require Import Base Consts Wire Manager MgrProofs Handler HandlerProofs StoreProofs.
Open Scope N_scope.

(* for every request (any index / begin / length, with or without overflow checks) and whatever is loaded
   and whatever the manager answers: the task does not panic; it sends nothing, or exactly one piece message
   with the same index and offset carrying exactly bytes [begin, begin+length) of the loaded piece file, with
   the range inside the piece and at most 16 KiB long *)
Theorem C09_reply : forall cf disk ovf s ri rb rl reply,
  match handle_request cf disk ovf s ri rb rl reply with
  | HPanic _ => False
  | o => pieces_in (acts_of o) = [] \/
         exists t, load_tx cf disk s ri reply = Ok (Some t) /\ tx_index t mod 4294967296 = ri /\ ri < c_pieces_num cf mod 4294967296 /\
                   rl <= 16384 /\ rb + rl <= len (tx_buff t) /\
                   pieces_in (acts_of o) = [(ri, rb, slice (tx_buff t) rb rl)]
  end.
Proof. intros. apply request_answer. reflexivity. Qed.

(* the manager lets a piece be loaded only for a peer it has unchoked and only a piece it owns ... *)
Theorem C09_manager : forall m a i pick m' j bc sp, mstep m (CRequest a i) pick = Ok (m', RReq_Load j, bc, sp) ->
  j = i /\ m' = m /\ i < pieces_n m /\ nthN (m_status m) i = Some Have /\
  exists p, pget (m_peers m) a = Some p /\ p_am_choked p = false.
Proof. exact load_only_unchoked_owned. Qed.

(* ... and what is loaded is forgotten when we choke the peer, so the next request asks the manager again *)
Theorem C09_choke_drops : forall sha1 cf disk ovf s r, exists s', hstep sha1 cf disk ovf s (EBroadOwn (Some true)) r = HCont s' [ASend Choke] /\ h_tx s' = None.
Proof. intros. eexists. split; reflexivity. Qed.

(* WHAT IS SERVED IS VERIFIED DATA (C01 meets C09).  If every file of the piece store hashes to its name -- which the
   tasks' writes establish and keep (C09_store_stays_verified, from C01_writes_verified) -- and what the task has loaded
   hashes to its piece's hash (kept by every event: C09_loaded_stays_verified), then every block sent in answer to a
   request is a slice of data hashing to the torrent's hash of the requested piece *)
Theorem C09_served_is_verified : forall sha1 cf disk ovf s ri rb rl r i b blk,
  StoreVerified sha1 disk -> TxOk sha1 cf s ->
  In (i, b, blk) (pieces_in (acts_of (handle_request cf disk ovf s ri rb rl r))) ->
  exists t, bytes_eqb (sha1 (tx_buff t)) (hash_of cf (tx_index t)) = true /\
            tx_index t mod 4294967296 = i /\ b = rb /\ blk = slice (tx_buff t) rb rl.
Proof. intros sha1 cf disk ovf s ri rb rl r i b blk HS. exact (served_block_is_verified sha1 cf disk HS ovf s ri rb rl r i b blk). Qed.
Theorem C09_loaded_stays_verified : forall sha1 cf disk ovf s ev r s' acts,
  StoreVerified sha1 disk -> TxOk sha1 cf s -> hstep sha1 cf disk ovf s ev r = HCont s' acts -> TxOk sha1 cf s'.
Proof. intros sha1 cf disk ovf s ev r s' acts HS. exact (tx_ok_kept sha1 cf disk HS ovf s ev r s' acts). Qed.
Theorem C09_store_stays_verified : forall sha1 cf disk0 disk ovf s ev r,
  StoreVerified sha1 disk -> StoreVerified sha1 (apply_writes disk (acts_of (hstep sha1 cf disk0 ovf s ev r))).
Proof. exact writes_keep_store_verified. Qed.

(* the pinned validation (32-bit addition) is refuted by the model with the repair flag off: see
   known_findings.json request-offset-overflow; non-vacuity of the answer: *)
Example C09_nonvacuous :
  let cf := mkconf [] [] 1 [[7]] in
  let disk := fun h => if bytes_eqb h [7] then Some [10;11;12;13;14] else None in
  acts_of (handle_request cf disk true (h_init None) 0 1 3 (Some (RReq_Load 0))) = [ACmd (KRequest 0); ASend (Piece 0 1 [11;12;13])].
Proof. vm_compute. reflexivity. Qed.

Print Assumptions C09_reply.
Print Assumptions C09_manager.
Print Assumptions C09_choke_drops.
Print Assumptions C09_served_is_verified.
Print Assumptions C09_loaded_stays_verified.
Print Assumptions C09_store_stays_verified.
