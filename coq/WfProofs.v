(* WfProofs.v — the manager never panics on what connection tasks can send.

   Well-formedness (WFm): the status table has one entry per piece, every peer's advertised set has one bit per piece,
   every assigned piece index is in range.  It holds initially, is preserved by every command, rotation and tracker
   answer, and under it none of the manager's panic sites (index out of range, "Piece downloaded but not requested",
   unknown address in choose_piece_index, copy_from_slice length mismatch) is reachable for commands the tasks send
   (`sendable`, discharged for the composition in PairProofs/this file). *)
From Rdest Require Import Base BaseProofs Consts Wire WireProofs Manager Handler MgrProofs HandlerProofs PairProofs.
From Coq Require Import ZifyBool ZifyN ZifyNat Permutation.
Open Scope N_scope.

Lemma to_vec_length bs n v : to_vec bs n = Some v -> length v = N.to_nat n.
Proof.
  unfold to_vec. destruct (len bs =? bytes_num n) eqn:E; [|discriminate].
  intros Hv. apply (f_equal (fun o => match o with Some x => x | None => v end)) in Hv. cbv beta iota in Hv. subst v.
  apply N.eqb_eq in E.
  assert (Hn : (N.to_nat n <= 8 * length bs)%nat).
  { unfold bytes_num, len, Bitfield_BITS_IN_BYTE in E. destruct (n mod 8 =? 0) eqn:E2; lia. }
  rewrite firstn_length, Nat.min_l; [reflexivity|].
  change (N.to_nat Bitfield_BITS_IN_BYTE) with 8%nat. fold unpack8. rewrite flat_unpack_length. lia.
Qed.

Lemma nthN_some_iff {A} (l : list A) i : (exists x, nthN l i = Some x) <-> (N.to_nat i < length l)%nat.
Proof.
  unfold nthN. split.
  - intros [x H]. apply nth_error_Some. congruence.
  - intros H. destruct (nth_error l (N.to_nat i)) as [x|] eqn:E; [exists x; reflexivity|].
    apply nth_error_None in E. lia.
Qed.
Lemma nthN_in_range {A} (l : list A) i : (N.to_nat i < length l)%nat -> nthN l i <> None.
Proof. intros H. destruct (proj2 (nthN_some_iff l i) H) as [x ->]. discriminate. Qed.

Definition PWF (n : nat) (p : peer) : Prop :=
  length (p_pieces p) = n /\ forall i, p_piece_index p = Some i -> (N.to_nat i < n)%nat.
Definition WFm (m : mgr) : Prop :=
  length (m_status m) = length (m_plens m) /\
  Forall (fun kp => PWF (length (m_plens m)) (snd kp)) (m_peers m).

Lemma Forall_pget (Q : peer -> Prop) ps a p : Forall (fun kp => Q (snd kp)) ps -> pget ps a = Some p -> Q p.
Proof.
  induction 1 as [|[k x] ps Hx _ IH]; cbn [pget]; [discriminate|]. destruct (k =? a); [intros [= <-]; exact Hx | exact IH].
Qed.
Lemma Forall_pset (Q : peer -> Prop) ps a p' : Forall (fun kp => Q (snd kp)) ps -> Q p' -> Forall (fun kp => Q (snd kp)) (pset ps a p').
Proof.
  intros H Hp'. induction H as [|[k x] ps Hx Hps IH]; cbn [pset]; [constructor; [exact Hp' | constructor]|].
  destruct (k =? a); constructor; assumption.
Qed.
Lemma Forall_premove (Q : peer -> Prop) ps a : Forall (fun kp => Q (snd kp)) ps -> Forall (fun kp => Q (snd kp)) (premove ps a).
Proof.
  induction 1 as [|[k x] ps Hx Hps IH]; cbn [premove]; [constructor|]. destruct (k =? a); [exact Hps | constructor; assumption].
Qed.
Lemma WF_peer m a p : WFm m -> pget (m_peers m) a = Some p -> PWF (length (m_plens m)) p.
Proof. intros [_ HP] E. exact (Forall_pget _ _ a p HP E). Qed.

(* what the tasks guarantee about the commands they send (discharged below for the composition) *)
Definition sendable (m : mgr) (c : cmd) : Prop :=
  match c with
  | CUnchoke a | CNotInterested a => pget (m_peers m) a <> None
  | CHave a i => (N.to_nat i < length (m_plens m))%nat
  | CPieceDone a | CPieceCancel a => forall p, pget (m_peers m) a = Some p -> p_piece_index p <> None
  | _ => True
  end.

Lemma WF_with_peer m a p' : WFm m -> PWF (length (m_plens m)) p' -> WFm (with_peer m a p').
Proof.
  intros [HL HP] Hp'. split; [exact HL|]. unfold with_peer. cbn [m_peers m_plens]. apply Forall_pset; assumption.
Qed.
Lemma WF_with_status m st : WFm m -> length st = length (m_status m) -> WFm (with_status m st).
Proof. intros [HL HP] E. split; [cbn [with_status m_status m_plens]; congruence | exact HP]. Qed.

Lemma PWF_same n p p' : PWF n p -> length (p_pieces p') = length (p_pieces p) ->
  (forall i, p_piece_index p' = Some i -> p_piece_index p = Some i \/ (N.to_nat i < n)%nat) -> PWF n p'.
Proof.
  intros [HL HI] E H. split; [congruence|]. intros i Hi. destruct (H i Hi) as [Ho|Hr]; [apply HI, Ho | exact Hr].
Qed.

Lemma php_WF m a p pk m' rep bc sp : WFm m -> pget (m_peers m) a = Some p -> valid_pick m pk ->
  peer_handle_piece m a p pk = Ok (m', rep, bc, sp) -> WFm m'.
Proof.
  intros HW Ep Hv H. pose proof (WF_peer m a p HW Ep) as Hp. unfold peer_handle_piece in H. destruct pk as [c|].
  - change (Peer_no_reserve_when_choked && p_choked p) with (p_choked p) in H. destruct (p_choked p).
    + unfold out in H. injection H as <- _ _ _. apply WF_with_peer; [exact HW|].
      apply (PWF_same _ p); [exact Hp | reflexivity | intros i Hi; discriminate].
    + destruct (upd_status (m_status m) c incr) as [st| | |] eqn:E; cbn [bind] in H; try discriminate.
      destruct (plen_of m c) as [l| | |]; cbn [bind] in H; try discriminate. unfold out in H. injection H as <- _ _ _.
      apply WF_with_peer; [apply WF_with_status; [exact HW | apply (upd_status_length _ _ _ _ E)]|].
      apply (PWF_same _ p); [exact Hp | reflexivity |]. cbn [set_assign p_piece_index]. intros i [= <-]. right. exact Hv.
  - unfold out in H. injection H as <- _ _ _. apply WF_with_peer; [exact HW|].
    apply (PWF_same _ p); [exact Hp | reflexivity | intros i Hi; discriminate].
Qed.

Lemma spawn_peer_WF m : WFm m -> WFm (fst (spawn_peer m)).
Proof.
  intros HW. unfold spawn_peer. destruct (rev (m_candidates m)) as [|[a0 id] rest]; [exact HW|].
  destruct (pget (m_peers m) a0) eqn:E0; cbn [fst].
  - destruct HW as [HL HP]. split; [exact HL | exact HP].
  - destruct HW as [HL HP]. split; [exact HL|]. cbn [m_peers m_plens]. apply Forall_pset; [exact HP|].
    split; [apply repeat_length | intros i Hi; discriminate].
Qed.

Lemma accept_WF skip m a : WFm m -> WFm (fst (accept_peer_with skip m a)).
Proof.
  intros HW. unfold accept_peer_with. destruct (MAX_NOT_INTERESTED <=? _); [exact HW|].
  destruct (skip && _); cbn [fst]; [exact HW|].
  apply WF_with_peer; [exact HW|]. split; [apply repeat_length | intros i Hi; discriminate].
Qed.

Theorem WF_step m c pick m' rep bc sp : WFm m -> valid_pick m pick ->
  mstep m c pick = Ok (m', rep, bc, sp) -> WFm m'.
Proof.
  intros HW Hv H. destruct c as [a id|a|a|a|a|a i|a bits|a i|a|a|a d u|a]; cbn [mstep] in H.
  - destruct (pget (m_peers m) a) as [p|] eqn:Ep; [|discriminate]. unfold out in H. injection H as <- _ _ _.
    apply WF_with_peer; [exact HW|]. apply (PWF_same _ p); [exact (WF_peer m a p HW Ep) | reflexivity | intros i Hi; left; exact Hi].
  - destruct (pget (m_peers m) a) as [p|] eqn:Ep; [|discriminate].
    destruct (match p_piece_index p with Some i => upd_status (m_status m) i decr | None => Ok (m_status m) end) as [st| | |] eqn:E;
      cbn [bind] in H; try discriminate. unfold out in H. injection H as <- _ _ _.
    apply WF_with_peer.
    + apply WF_with_status; [exact HW|]. destruct (p_piece_index p); [apply (upd_status_length _ _ _ _ E) | injection E as <-; reflexivity].
    + apply (PWF_same _ p); [exact (WF_peer m a p HW Ep) | reflexivity | intros i Hi; left; exact Hi].
  - destruct (pget (m_peers m) a) as [p|] eqn:Ep; [|discriminate]. destruct pick as [c|].
    + destruct (upd_status (m_status m) c incr) as [st| | |] eqn:E; cbn [bind] in H; try discriminate.
      destruct (plen_of m c) as [l| | |]; cbn [bind] in H; try discriminate. unfold out in H. injection H as <- _ _ _.
      apply WF_with_peer; [apply WF_with_status; [exact HW | apply (upd_status_length _ _ _ _ E)]|].
      apply (PWF_same _ p); [exact (WF_peer m a p HW Ep) | reflexivity |]. cbn [set_assign set_choked p_piece_index]. intros i [= <-]. right. exact Hv.
    + unfold out in H. injection H as <- _ _ _. apply WF_with_peer; [exact HW|].
      apply (PWF_same _ p); [exact (WF_peer m a p HW Ep) | reflexivity | intros i Hi; discriminate].
  - destruct (pget (m_peers m) a) as [p|] eqn:Ep; [|discriminate]. unfold out in H. injection H as <- _ _ _.
    apply WF_with_peer; [exact HW|]. apply (PWF_same _ p); [exact (WF_peer m a p HW Ep) | reflexivity | intros i Hi; left; exact Hi].
  - destruct (pget (m_peers m) a) as [p|] eqn:Ep; [|discriminate]. unfold out in H. injection H as <- _ _ _.
    apply WF_with_peer; [exact HW|]. apply (PWF_same _ p); [exact (WF_peer m a p HW Ep) | reflexivity | intros i Hi; left; exact Hi].
  - destruct (pget (m_peers m) a) as [p|] eqn:Ep; [|discriminate].
    pose proof (WF_peer m a p HW Ep) as Hp.
    destruct (len (p_pieces p) <=? i) eqn:Ei; [discriminate|].
    assert (Hir : (N.to_nat i < length (m_plens m))%nat) by (destruct Hp as [HL _]; unfold len in Ei; lia).
    destruct (nthN (m_status m) i) as [s0|]; [|discriminate].
    assert (P1 : forall idx am, (forall k, idx = Some k -> p_piece_index p = Some k \/ (N.to_nat k < length (m_plens m))%nat) ->
                 PWF (length (m_plens m)) (set_assign (set_pieces p (set_nth (p_pieces p) (N.to_nat i) true)) idx am)).
    { intros idx am Hidx. apply (PWF_same _ p); [exact Hp | cbn; apply set_nth_length | exact Hidx]. }
    destruct (is_missing s0 && negb (p_am_interested p)).
    + destruct (negb (p_choked p) && match p_piece_index p with None => true | Some _ => false end).
      * destruct (plen_of m i) as [l| | |]; cbn [bind] in H; try discriminate. unfold out in H. injection H as <- _ _ _.
        apply WF_with_peer; [apply WF_with_status; [exact HW | apply set_nth_length]|].
        apply P1. intros k [= <-]. right. exact Hir.
      * unfold out in H. injection H as <- _ _ _. apply WF_with_peer; [exact HW|]. apply P1. intros k Hk. left. exact Hk.
    + unfold out in H. injection H as <- _ _ _. apply WF_with_peer; [exact HW|].
      apply (PWF_same _ p); [exact Hp | cbn; apply set_nth_length | intros k Hk; left; exact Hk].
  - destruct (pget (m_peers m) a) as [p|] eqn:Ep; [|discriminate].
    destruct (to_vec bits (pieces_n m)) as [v|] eqn:Ev; [|discriminate].
    destruct (negb (len v =? len (p_pieces p))) eqn:El; [discriminate|]. unfold out in H. injection H as <- _ _ _.
    apply WF_with_peer; [exact HW|]. apply (PWF_same _ p); [exact (WF_peer m a p HW Ep) | | intros k Hk; left; exact Hk].
    cbn. unfold len in El. lia.
  - destruct (pget (m_peers m) a) as [p|] eqn:Ep; [|discriminate].
    assert (G : forall r0, out m r0 = Ok (m', rep, bc, sp) -> WFm m') by (intros r0 H0; unfold out in H0; injection H0 as <- _ _ _; exact HW).
    destruct (p_am_choked p); [exact (G _ H)|]. destruct (pieces_n m <=? i); [exact (G _ H)|].
    destruct (nthN (m_status m) i) as [s0|]; [|discriminate]. destruct (is_have s0); exact (G _ H).
  - destruct (pget (m_peers m) a) as [p|] eqn:Ep; [|discriminate].
    destruct (p_piece_index p) as [i|]; [|discriminate].
    destruct (nthN (m_status m) i) as [s0|]; [|discriminate].
    destruct (peer_handle_piece _ a p pick) as [[[[m2 rep2] bc2] sp2]| | |] eqn:E; cbn [bind] in H; try discriminate.
    injection H as <- _ _ _. apply (php_WF (with_status m (sset (m_status m) i Have)) a p pick m2 rep2 bc2 sp2); [|exact Ep|exact Hv|exact E].
    apply WF_with_status; [exact HW | apply set_nth_length].
  - destruct (pget (m_peers m) a) as [p|] eqn:Ep; [|discriminate].
    destruct (p_piece_index p) as [i|]; [|discriminate].
    destruct (upd_status (m_status m) i decr) as [st0| | |] eqn:E0; cbn [bind] in H; try discriminate.
    apply (php_WF (with_status m st0) a p pick m' rep bc sp); [|exact Ep|exact Hv|exact H].
    apply WF_with_status; [exact HW | apply (upd_status_length _ _ _ _ E0)].
  - destruct (pget (m_peers m) a) as [p|] eqn:Ep; [|discriminate]. unfold out in H. injection H as <- _ _ _.
    apply WF_with_peer; [exact HW|]. apply (PWF_same _ p); [exact (WF_peer m a p HW Ep) | reflexivity | intros i Hi; left; exact Hi].
  - destruct (kill_peer m a) as [m1| | |] eqn:Ek; cbn [bind] in H; try discriminate.
    assert (W1 : WFm m1).
    { unfold kill_peer in Ek. destruct (pget (m_peers m) a) as [p|] eqn:Ep; [|injection Ek as <-; exact HW].
      destruct (match p_piece_index p with Some i => _ | None => Ok (m_status m) end) as [st| | |] eqn:E; cbn [bind] in Ek; try discriminate.
      injection Ek as <-. destruct HW as [HL HP]. split.
      - cbn [m_status m_plens]. rewrite <- HL. destruct (p_piece_index p) as [i|]; [|injection E as <-; reflexivity].
        destruct (nthN (m_status m) i) as [s0|]; [|discriminate]. injection E as <-. destruct (is_have s0); [reflexivity | apply set_nth_length].
      - cbn [m_peers m_plens]. apply Forall_premove. exact HP. }
    destruct (all_have (m_status m1)).
    + injection H as <- _ _ _. destruct W1 as [HL HP]. split; [exact HL | exact HP].
    + destruct (m_candidates m1) eqn:Ec.
      * injection H as <- _ _ _. exact W1.
      * destruct (spawn_peer m1) as [m2 sp2] eqn:Es. injection H as <- _ _ _.
        pose proof (spawn_peer_WF m1 W1) as W2. rewrite Es in W2. exact W2.
Qed.

(* ---- no panic ------------------------------------------------------------------------------------------ *)
Lemma upd_status_no_panic st i f : (N.to_nat i < length st)%nat -> exists st', upd_status st i f = Ok st'.
Proof. intros H. unfold upd_status. destruct (proj2 (nthN_some_iff st i) H) as [x ->]. eexists. reflexivity. Qed.
Lemma plen_no_panic m i : (N.to_nat i < length (m_plens m))%nat -> exists l, plen_of m i = Ok l.
Proof. intros H. unfold plen_of. destruct (proj2 (nthN_some_iff (m_plens m) i) H) as [x ->]. eexists. reflexivity. Qed.

Lemma php_no_panic m a p pk : WFm m -> valid_pick m pk -> peer_handle_piece m a p pk <> Panic.
Proof.
  intros [HL _] Hv. unfold peer_handle_piece. destruct pk as [c|]; [|unfold out; discriminate].
  destruct (Peer_no_reserve_when_choked && p_choked p); [unfold out; discriminate|].
  cbn [valid_pick] in Hv. destruct (upd_status_no_panic (m_status m) c incr) as [st ->]; [lia|]. cbn [bind].
  destruct (p_choked p); [unfold out; discriminate|].
  destruct (plen_no_panic m c Hv) as [l ->]. cbn [bind]. unfold out. discriminate.
Qed.

Theorem no_manager_panic m c pick : WFm m -> sendable m c -> valid_pick m pick -> mstep m c pick <> Panic.
Proof.
  intros HW Hs Hv. pose proof HW as [HL HP].
  destruct c as [a id|a|a|a|a|a i|a bits|a i|a|a|a d u|a]; cbn [mstep sendable] in *.
  - destruct (pget (m_peers m) a); unfold out; discriminate.
  - destruct (pget (m_peers m) a) as [p|] eqn:Ep; [|discriminate].
    destruct (p_piece_index p) as [i|] eqn:Ei; cbn [bind]; [|unfold out; discriminate].
    destruct (upd_status_no_panic (m_status m) i decr) as [st ->]; [|cbn [bind]; unfold out; discriminate].
    destruct (WF_peer m a p HW Ep) as [_ HI]. specialize (HI i Ei). lia.
  - destruct (pget (m_peers m) a) as [p|] eqn:Ep; [|contradiction]. destruct pick as [c|]; [|unfold out; discriminate].
    cbn [valid_pick] in Hv. destruct (upd_status_no_panic (m_status m) c incr) as [st ->]; [lia|]. cbn [bind].
    destruct (plen_no_panic m c Hv) as [l ->]. cbn [bind]. unfold out. discriminate.
  - destruct (pget (m_peers m) a); unfold out; discriminate.
  - destruct (pget (m_peers m) a) as [p|]; [unfold out; discriminate | contradiction].
  - destruct (pget (m_peers m) a) as [p|] eqn:Ep; [|discriminate].
    destruct (WF_peer m a p HW Ep) as [HLp _].
    replace (len (p_pieces p) <=? i) with false by (unfold len; lia).
    destruct (proj2 (nthN_some_iff (m_status m) i)) as [s0 ->]; [lia|].
    destruct (is_missing s0 && negb (p_am_interested p)); [|unfold out; discriminate].
    destruct (negb (p_choked p) && _); [|unfold out; discriminate].
    destruct (plen_no_panic m i Hs) as [l ->]. cbn [bind]. unfold out. discriminate.
  - destruct (pget (m_peers m) a) as [p|] eqn:Ep; [|discriminate].
    destruct (to_vec bits (pieces_n m)) as [v|] eqn:Ev; [|discriminate].
    destruct (WF_peer m a p HW Ep) as [HLp _]. apply to_vec_length in Ev.
    assert (El : len v = len (p_pieces p)) by (unfold pieces_n in Ev; rewrite to_nat_len in Ev; unfold len; rewrite Ev, HLp; reflexivity).
    rewrite El, N.eqb_refl. cbn [negb]. unfold out. discriminate.
  - destruct (pget (m_peers m) a) as [p|]; [|discriminate].
    destruct (p_am_choked p); [unfold out; discriminate|]. destruct (pieces_n m <=? i) eqn:Ei; [unfold out; discriminate|].
    destruct (proj2 (nthN_some_iff (m_status m) i)) as [s0 ->]; [unfold pieces_n, len in Ei; lia|].
    destruct (is_have s0); unfold out; discriminate.
  - destruct (pget (m_peers m) a) as [p|] eqn:Ep; [|discriminate].
    destruct (p_piece_index p) as [i|] eqn:Ei; [|exfalso; exact (Hs p eq_refl Ei)].
    destruct (WF_peer m a p HW Ep) as [_ HI]. specialize (HI i Ei).
    destruct (proj2 (nthN_some_iff (m_status m) i)) as [s0 ->]; [lia|].
    pose proof (php_no_panic (with_status m (sset (m_status m) i Have)) a p pick) as NP.
    destruct (peer_handle_piece _ a p pick) as [[[[m2 rep2] bc2] sp2]| | |]; cbn [bind]; try discriminate.
    exfalso. apply NP; [apply WF_with_status; [exact HW | apply set_nth_length] | exact Hv | reflexivity].
  - destruct (pget (m_peers m) a) as [p|] eqn:Ep; [|discriminate].
    destruct (p_piece_index p) as [i|] eqn:Ei; [|exfalso; exact (Hs p eq_refl Ei)].
    destruct (WF_peer m a p HW Ep) as [_ HI]. specialize (HI i Ei).
    destruct (upd_status (m_status m) i decr) as [st| | |] eqn:E0; cbn [bind]; try discriminate.
    + apply php_no_panic; [apply WF_with_status; [exact HW | apply (upd_status_length _ _ _ _ E0)] | exact Hv].
    + destruct (upd_status_no_panic (m_status m) i decr) as [st E1]; [lia|]. congruence.
  - destruct (pget (m_peers m) a); unfold out; discriminate.
  - unfold kill_peer. destruct (pget (m_peers m) a) as [p|] eqn:Ep; cbn [bind].
    + destruct (p_piece_index p) as [i|] eqn:Ei.
      * destruct (WF_peer m a p HW Ep) as [_ HI]. specialize (HI i Ei).
        destruct (proj2 (nthN_some_iff (m_status m) i)) as [s0 ->]; [lia|]. cbn [bind].
        destruct (all_have _); [discriminate|]. cbn [m_candidates]. destruct (m_candidates m); [discriminate|].
        destruct (spawn_peer _); discriminate.
      * cbn [bind]. destruct (all_have _); [discriminate|]. cbn [m_candidates]. destruct (m_candidates m); [discriminate|].
        destruct (spawn_peer _); discriminate.
    + destruct (all_have _); [discriminate|]. destruct (m_candidates m); [discriminate|]. destruct (spawn_peer _); discriminate.
Qed.

(* ---- the manager handles the command: neither a panic nor an error ------------------------------------------ *)
(* Session::run applies `.expect("Can't handle command")` to handle_peer_cmd's Result: an `Err` (PeerNotFound, a
   bitfield of the wrong size) ends the manager exactly like a panic does.  `deliverable` adds to `sendable` what rules
   the errors out: the sender is a connected peer, and a relayed bitfield has passed Bitfield::validate. *)
Definition deliverable (m : mgr) (c : cmd) : Prop :=
  sendable m c /\
  match c with
  | CKill _ => True
  | CBitfield a bits => pget (m_peers m) a <> None /\ bitfield_validate bits (pieces_n m) = true
  | _ => pget (m_peers m) (cmd_addr c) <> None
  end.

Lemma bind_not_err {A B} (r : result A) (k : A -> result B) :
  (forall x, r = Ok x -> k x <> Err /\ k x <> OutOfFuel) -> r <> Err -> r <> OutOfFuel ->
  bind r k <> Err /\ bind r k <> OutOfFuel.
Proof. intros Hk H1 H2. destruct r as [x| | |]; cbn [bind]; try contradiction; [apply Hk; reflexivity | split; discriminate]. Qed.

Lemma upd_status_kind st i f : upd_status st i f <> Err /\ upd_status st i f <> OutOfFuel.
Proof. unfold upd_status. destruct (nthN st i); split; discriminate. Qed.
Lemma plen_kind m i : plen_of m i <> Err /\ plen_of m i <> OutOfFuel.
Proof. unfold plen_of. destruct (nthN (m_plens m) i); split; discriminate. Qed.

Lemma php_kind m a p pk : peer_handle_piece m a p pk <> Err /\ peer_handle_piece m a p pk <> OutOfFuel.
Proof.
  unfold peer_handle_piece, out. destruct pk as [c|]; [|split; discriminate].
  destruct (Peer_no_reserve_when_choked && p_choked p); [split; discriminate|].
  apply bind_not_err; try apply upd_status_kind. intros st _.
  destruct (p_choked p); [split; discriminate|].
  apply bind_not_err; try apply plen_kind. intros l _. split; discriminate.
Qed.

Lemma kill_peer_kind m a : kill_peer m a <> Err /\ kill_peer m a <> OutOfFuel.
Proof.
  unfold kill_peer. destruct (pget (m_peers m) a) as [p|]; [|split; discriminate].
  apply bind_not_err; [intros st _; split; discriminate| |];
    (destruct (p_piece_index p) as [i|]; [destruct (nthN (m_status m) i)|]; discriminate).
Qed.

Lemma mstep_kind m c pick : deliverable m c -> mstep m c pick <> Err /\ mstep m c pick <> OutOfFuel.
Proof.
  intros [_ Hd]. destruct c as [a id|a|a|a|a|a i|a bits|a i|a|a|a d u|a]; cbn [mstep cmd_addr] in *; unfold out.
  - destruct (pget (m_peers m) a); [split; discriminate | contradiction].
  - destruct (pget (m_peers m) a) as [p|]; [|contradiction].
    apply bind_not_err; [intros st _; split; discriminate| |];
      (destruct (p_piece_index p); [apply upd_status_kind | discriminate]).
  - destruct (pget (m_peers m) a) as [p|]; [|contradiction]. destruct pick as [c|]; [|split; discriminate].
    apply bind_not_err; try apply upd_status_kind. intros st _.
    apply bind_not_err; try apply plen_kind. intros l _. split; discriminate.
  - destruct (pget (m_peers m) a); [split; discriminate | contradiction].
  - destruct (pget (m_peers m) a); [split; discriminate | contradiction].
  - destruct (pget (m_peers m) a) as [p|]; [|contradiction].
    destruct (len (p_pieces p) <=? i); [split; discriminate|].
    destruct (nthN (m_status m) i) as [s0|]; [|split; discriminate].
    destruct (is_missing s0 && negb (p_am_interested p)); [|split; discriminate].
    destruct (negb (p_choked p) && _); [|split; discriminate].
    apply bind_not_err; try apply plen_kind. intros l _. split; discriminate.
  - destruct Hd as [Hp Hv]. destruct (pget (m_peers m) a) as [p|]; [|contradiction].
    unfold to_vec. unfold bitfield_validate in Hv. rewrite Hv.
    destruct (negb _); split; discriminate.
  - destruct (pget (m_peers m) a) as [p|]; [|contradiction].
    destruct (p_am_choked p); [split; discriminate|]. destruct (pieces_n m <=? i); [split; discriminate|].
    destruct (nthN (m_status m) i) as [s0|]; [|split; discriminate]. destruct (is_have s0); split; discriminate.
  - destruct (pget (m_peers m) a) as [p|]; [|contradiction].
    destruct (p_piece_index p) as [i|]; [|split; discriminate].
    destruct (nthN (m_status m) i); [|split; discriminate].
    apply bind_not_err; try apply php_kind. intros [[[m2 rep] bc] sp] _. split; discriminate.
  - destruct (pget (m_peers m) a) as [p|]; [|contradiction].
    destruct (p_piece_index p) as [i|]; [|split; discriminate].
    apply bind_not_err; try apply upd_status_kind. intros st _. apply php_kind.
  - destruct (pget (m_peers m) a); [split; discriminate | contradiction].
  - apply bind_not_err; try apply kill_peer_kind. intros m1 _.
    destruct (all_have (m_status m1)); [split; discriminate|].
    destruct (m_candidates m1); [split; discriminate|]. destruct (spawn_peer m1). split; discriminate.
Qed.

(* the full statement: on every command a task can send, in a well-formed state and with a chooser answer in range,
   handle_peer_cmd returns Ok -- the manager neither panics nor fails its `.expect` *)
Theorem manager_handles m c pick : WFm m -> deliverable m c -> valid_pick m pick ->
  exists m' rep bc sp, mstep m c pick = Ok (m', rep, bc, sp).
Proof.
  intros HW Hd Hv. pose proof (no_manager_panic m c pick HW (proj1 Hd) Hv) as NP.
  destruct (mstep_kind m c pick Hd) as [NE NF].
  destruct (mstep m c pick) as [[[[m' rep] bc] sp]| | |]; try contradiction. exists m', rep, bc, sp. reflexivity.
Qed.

(* the rotation timer (`timeout_change_conn_state().await.expect(..)`): with rate lists and optimistic picks drawn from
   the connected peers -- the real wrapper builds both from the keys of `peers` -- change_conn_state returns Ok *)
Lemma pset_keeps_present ps a q b : pget ps b <> None -> pget (pset ps a q) b <> None.
Proof.
  intros H. destruct (N.eq_dec a b) as [->|Hn]; [rewrite pget_pset_same; discriminate | rewrite pget_pset_other by exact Hn; exact H].
Qed.
Lemma rotate_go_ok new_opt : forall order ps count flips, (forall a, In a order -> pget ps a <> None) ->
  exists ps' fl, rotate_go ps order new_opt count flips = Ok (ps', fl) /\ (forall b, pget ps b <> None -> pget ps' b <> None).
Proof.
  induction order as [|a rest IH]; intros ps count flips H; cbn [rotate_go].
  - exists ps, flips. split; [reflexivity | auto].
  - destruct (pget ps a) as [p|] eqn:Ep; [|exfalso; apply (H a); [left; reflexivity | exact Ep]].
    destruct (if count <? MAX_UNCHOKED then _ else _) as [[am cnt] fl0].
    edestruct (IH (pset ps a (set_am_choked p am (match new_opt with [] => p_optimistic p | _ => false end))) cnt (flips ++ fl0))
      as (ps' & fl & E & K).
    + intros b Hb. apply pset_keeps_present. apply H. right. exact Hb.
    + exists ps', fl. split; [exact E|]. intros b Hb. apply K. apply pset_keeps_present. exact Hb.
Qed.
Lemma set_optimistic_ok : forall new_opt ps flips, (forall a, In a new_opt -> pget ps a <> None) ->
  exists ps' fl, set_optimistic ps new_opt flips = Ok (ps', fl).
Proof.
  induction new_opt as [|a rest IH]; intros ps flips H; cbn [set_optimistic].
  - exists ps, flips. reflexivity.
  - destruct (pget ps a) as [p|] eqn:Ep; [|exfalso; apply (H a); [left; reflexivity | exact Ep]].
    apply IH. intros b Hb. apply pset_keeps_present. apply H. right. exact Hb.
Qed.
Theorem rotation_handles m rates new_opt :
  (forall a, In a (map fst rates) -> pget (m_peers m) a <> None) -> (forall a, In a new_opt -> pget (m_peers m) a <> None) ->
  exists m' fl, change_conn_state m rates new_opt = Ok (m', fl).
Proof.
  intros Hr Ho. unfold change_conn_state.
  destruct (rotate_go_ok new_opt (map fst (sort_rates rates)) (m_peers m) 0 []) as (ps1 & fl1 & E1 & K1).
  { intros a Ha. apply Hr. eapply Permutation_in; [apply Permutation_map; apply sort_rates_perm | exact Ha]. }
  rewrite E1. cbn [bind fst snd].
  destruct (set_optimistic_ok new_opt ps1 fl1) as (ps2 & fl2 & E2); [intros a Ha; apply K1, Ho, Ha|].
  rewrite E2. cbn [bind fst snd]. eexists _, _. reflexivity.
Qed.

(* ---- WFm holds at the start and under everything else the manager does --------------------------------- *)
Lemma WF_init st plens : length st = length plens -> WFm (mkmgr st [] [] 0 false plens).
Proof. intros H. split; [exact H | constructor]. Qed.

Lemma PK_Forall (Q : peer -> Prop) : forall order ps new_opt count flips ps' fl,
  (forall p am opt, Q p -> Q (set_am_choked p am opt)) ->
  Forall (fun kp => Q (snd kp)) ps -> rotate_go ps order new_opt count flips = Ok (ps', fl) -> Forall (fun kp => Q (snd kp)) ps'.
Proof.
  induction order as [|a rest IH]; intros ps new_opt count flips ps' fl HQ HF H; cbn [rotate_go] in H.
  - injection H as <- _. exact HF.
  - destruct (pget ps a) as [p|] eqn:Ep; [|discriminate].
    destruct (if count <? MAX_UNCHOKED then _ else _) as [[am cnt] fl0].
    eapply IH; [exact HQ| |exact H]. apply Forall_pset; [exact HF|]. apply HQ. exact (Forall_pget Q ps a p HF Ep).
Qed.
Lemma set_optimistic_Forall (Q : peer -> Prop) : forall new_opt ps flips ps' fl,
  (forall p am opt, Q p -> Q (set_am_choked p am opt)) ->
  Forall (fun kp => Q (snd kp)) ps -> set_optimistic ps new_opt flips = Ok (ps', fl) -> Forall (fun kp => Q (snd kp)) ps'.
Proof.
  induction new_opt as [|a rest IH]; intros ps flips ps' fl HQ HF H; cbn [set_optimistic] in H.
  - injection H as <- _. exact HF.
  - destruct (pget ps a) as [p|] eqn:Ep; [|discriminate].
    eapply IH; [exact HQ| |exact H]. apply Forall_pset; [exact HF|]. apply HQ. exact (Forall_pget Q ps a p HF Ep).
Qed.

Theorem WF_rotation m rates new_opt m' fl : WFm m -> change_conn_state m rates new_opt = Ok (m', fl) -> WFm m'.
Proof.
  intros [HL HP] H. unfold change_conn_state in H.
  destruct (rotate_go (m_peers m) (map fst (sort_rates rates)) new_opt 0 []) as [[ps1 fl1]| | |] eqn:E1; cbn [bind] in H; try discriminate.
  cbn [fst snd] in H. destruct (set_optimistic ps1 new_opt fl1) as [[ps2 fl2]| | |] eqn:E2; cbn [bind] in H; try discriminate.
  injection H as <- _. split; [exact HL|]. cbn [m_peers m_plens fst].
  assert (HQ : forall p am opt, PWF (length (m_plens m)) p -> PWF (length (m_plens m)) (set_am_choked p am opt))
    by (intros p am opt Hp; exact Hp).
  eapply set_optimistic_Forall; [exact HQ| |exact E2]. eapply PK_Forall; [exact HQ|exact HP|exact E1].
Qed.

Lemma spawn_n_WF : forall k m acc, WFm m -> WFm (fst (spawn_n k m acc)).
Proof.
  induction k as [|k IH]; intros m acc HW; cbn [spawn_n]; [exact HW|].
  destruct (spawn_peer m) as [m1 sp] eqn:E. apply IH. pose proof (spawn_peer_WF m HW) as W. rewrite E in W. exact W.
Qed.
Theorem WF_tracker_resp m peers : WFm m -> WFm (fst (handle_tracker_resp m peers)).
Proof.
  intros [HL HP]. unfold handle_tracker_resp. apply spawn_n_WF. split; [exact HL | exact HP].
Qed.

(* a chooser answer is always in range (pick_ok is what C13 proves of the chooser) *)
(* ... hence in every state the manager can reach (MgrProofs.mreach: well-formed start, producible commands with chooser
   answers in range, accepted connections, rotations, tracker answers) ... *)
Theorem mreach_WF m : mreach m -> WFm m.
Proof.
  induction 1 as [st plens HL _|m a id _ IH Hf|m c pick m' r bc sp _ IH _ Hv Hs|m rates new_opt m' fl _ IH Hr|m peers _ IH|m a _ IH].
  - apply WF_init. exact HL.
  - change (WFm (with_peer m a (new_peer id (length (m_plens m))))). apply WF_with_peer; [exact IH|].
    split; [apply repeat_length | intros i Hi; discriminate].
  - eapply WF_step; eassumption.
  - eapply WF_rotation; eassumption.
  - apply WF_tracker_resp. exact IH.
  - apply accept_WF. exact IH.
Qed.
(* ... so, over reachable states: on every command a task can send, with a chooser answer in range, the manager returns Ok *)
Theorem reachable_manager_handles m c pick : mreach m -> deliverable m c -> valid_pick m pick ->
  exists m' rep bc sp, mstep m c pick = Ok (m', rep, bc, sp).
Proof. intros R. apply manager_handles. apply mreach_WF. exact R. Qed.

Lemma pick_ok_valid m p pick : WFm m -> pick_ok m p pick = true -> valid_pick m pick.
Proof.
  intros [HL _] H. destruct pick as [c|]; [|exact I]. cbn [valid_pick]. unfold pick_ok in H.
  apply andb_true_iff in H. destruct H as [H _]. unfold eligible in H.
  apply andb_true_iff in H. destruct H as [H _]. apply andb_true_iff in H. destruct H as [H _].
  unfold desired in H. destruct (nth_error (m_status m) (N.to_nat c)) eqn:E; [|discriminate].
  rewrite <- HL. apply nth_error_Some. congruence.
Qed.

(* ---- what the task sends satisfies `sendable` in every reachable composition ------------------------------- *)
Section Sendable.
  Variable sha1 : bytes -> bytes.
  Variable cf : hconf.
  Variable disk : bytes -> option bytes.

  Definition cact_ok (s : hst) (x : action) : bool :=
    match x with
    | ACmd (KHave i) => i <? c_pieces_num cf
    | ACmd KPieceDone | ACmd KPieceCancel => match h_rx s with Some _ => true | None => false end
    | ACmd (KBitfield bs) => bitfield_validate bs (c_pieces_num cf)
    | _ => true
    end.

  Lemma npr_cok s int i plen rx a : new_piece_request cf int i plen = (rx, a) -> forallb (cact_ok s) a = true.
  Proof.
    unfold new_piece_request, send_request, new_rx. cbn [rx_left rx_index rx_requested rx_hash rx_buff].
    destruct (left_blocks plen) as [|[b1 l1] [|[b2 l2] rest]]; cbn [rx_left rx_index rx_requested rx_hash rx_buff app];
      intros [= <- <-]; destruct int; reflexivity.
  Qed.

  Lemma apf_cok s s0 pre reply : forallb (cact_ok s) pre = true ->
    forallb (cact_ok s) (acts_of (after_piece_finish cf s0 pre reply)) = true.
  Proof.
    intros Hp. unfold after_piece_finish. destruct reply as [[]|]; cbn [acts_of]; try exact Hp.
    - destruct (new_piece_request cf false i len) as [rx a] eqn:E. cbn [acts_of]. rewrite forallb_app', Hp. apply (npr_cok s _ _ _ _ _ E).
    - rewrite forallb_app', Hp. reflexivity.
  Qed.

  Lemma sends_cok {A} s (f : A -> msg) l : forallb (cact_ok s) (map (fun x => ASend (f x)) l) = true.
  Proof. induction l as [|x l IH]; [reflexivity | exact IH]. Qed.

  Theorem commands_ok ovf s ev r : forallb (cact_ok s) (acts_of (hstep sha1 cf disk ovf s ev r)) = true.
  Proof.
    destruct ev as [|m| | | |i|b]; cbn [Handler.hstep].
    - destruct (h_peer_id s); [|reflexivity]. unfold init_handshake. destruct r as [[]|]; reflexivity.
    - unfold Handler.handle_frame.
      destruct (Handler_gate_on_handshake && negb (h_hs_done s) && negb match m with Handshake _ _ => true | _ => false end); [reflexivity|].
      destruct m as [ih pid| | | | | |i|bs|ri rb rl|i b blk|i b l]; try reflexivity.
      + destruct (negb (bytes_eqb ih (c_info_hash cf))); [reflexivity|]. cbn [h_peer_id set_ka].
        destruct (h_peer_id s); [destruct (negb (bytes_eqb pid b)); reflexivity|].
        unfold init_handshake. destruct r as [[]|]; reflexivity.
      + destruct (Handler_ignore_repeated_unchoke && negb (h_choked (set_ka s 0))); [reflexivity|].
        pose proof (sends_cok s Wire.Have (h_msg_buff s)) as HF. cbn [set_ka h_msg_buff].
        destruct r as [[]|]; cbn [acts_of]; rewrite ?forallb_app', ?HF; try reflexivity;
          match goal with |- context [new_piece_request ?a ?b ?c ?d] => destruct (new_piece_request a b c d) as [rx a0] eqn:E end;
          cbn [acts_of]; rewrite !forallb_app', HF, (npr_cok s _ _ _ _ _ E); reflexivity.
      + destruct r as [[]|]; reflexivity.
      + destruct (c_pieces_num cf <=? i) eqn:Ei; [reflexivity|].
        assert (Hi : (i <? c_pieces_num cf) = true) by lia.
        destruct r as [[]|]; cbn [acts_of forallb cact_ok]; rewrite ?Hi; try reflexivity.
        match goal with |- context [new_piece_request ?a ?b ?c ?d] => destruct (new_piece_request a b c d) as [rx a0] eqn:E end.
        cbn [acts_of app forallb cact_ok]. rewrite Hi. apply (npr_cok s _ _ _ _ _ E).
      + destruct (negb (bitfield_validate bs (c_pieces_num cf))) eqn:Eb; [reflexivity|]. apply negb_false_iff in Eb.
        destruct r as [[]|]; cbn [acts_of forallb cact_ok app]; rewrite ?Eb; try reflexivity.
        destruct with_unchoke, am_interested; cbn [acts_of forallb cact_ok app]; rewrite ?Eb; reflexivity.
      + unfold handle_request.
        assert (Hpre : forallb (cact_ok s) (if need_ask (set_ka s 0) ri then [ACmd (KRequest ri)] else []) = true)
          by (destruct (need_ask (set_ka s 0) ri); reflexivity).
        destruct (load_tx cf disk (set_ka s 0) ri r) as [[t|]| | |]; cbn [acts_of]; try exact Hpre.
        destruct (request_validate cf ovf ri rb rl (tx_index t) (len (tx_buff t))); cbn [acts_of]; try exact Hpre.
        destruct (len (tx_buff t) <? rb + rl); cbn [acts_of]; [exact Hpre|].
        rewrite forallb_app', Hpre. reflexivity.
      + unfold handle_piece. cbn [h_rx set_ka].
        destruct (h_rx s) as [rx|] eqn:Erx; [|reflexivity].
        destruct (negb (is_requested rx i b blk)); [reflexivity|]. cbn [rx_left].
        destruct (rx_left rx) as [|l0 ls].
        * destruct (filter _ (rx_requested rx)) as [|q0 qs].
          -- cbn [rx_hash rx_index rx_buff rx_requested rx_left].
             destruct (bytes_eqb (sha1 (put_block (rx_buff rx) b blk)) (rx_hash rx)) eqn:EH; cbn [negb]; [|reflexivity].
             apply apf_cok. cbn [forallb cact_ok]. rewrite Erx. reflexivity.
          -- unfold send_request. cbn [rx_left]. reflexivity.
        * unfold send_request. cbn [rx_left]. destruct l0. reflexivity.
    - reflexivity.
    - destruct Handler_recv_error_terminates; reflexivity.
    - destruct (h_keep_alive s =? peer_handler_KEEP_ALIVE_LIMIT); reflexivity.
    - assert (A : forall s0, forallb (cact_ok s)
                    (snd (if h_choked s0 then (set_buff s0 (h_msg_buff s0 ++ [i]), []) else (s0, [ASend (Wire.Have i)]))) = true).
      { intros s0. destruct (h_choked s0); reflexivity. }
      destruct (h_rx s) as [rx|] eqn:Erx.
      + destruct (rx_index rx =? i).
        * assert (Hpre : forallb (cact_ok s) (map (fun bl => ASend (Cancel i (fst bl) (snd bl))) (rx_requested rx) ++ [ACmd KPieceCancel]) = true).
          { rewrite forallb_app'. cbn [forallb cact_ok]. rewrite Erx, andb_true_r.
            apply forallb_forall. intros x Hx. apply in_map_iff in Hx. destruct Hx as (bl & <- & _). reflexivity. }
          pose proof (apf_cok s (set_rx s None) _ r Hpre) as HA.
          destruct (after_piece_finish cf (set_rx s None) _ r) as [s1 a|s1 a [|]|a]; cbn [acts_of] in *; try exact HA.
          -- specialize (A s1). destruct (if h_choked s1 then _ else _) as [s2 a2]. cbn [acts_of snd] in *. rewrite forallb_app', HA, A. reflexivity.
          -- specialize (A s1). destruct (if h_choked s1 then _ else _) as [s2 a2]. cbn [acts_of snd] in *. rewrite forallb_app', HA, A. reflexivity.
        * specialize (A s). destruct (if h_choked s then _ else _) as [s2 a2]. exact A.
      + specialize (A s). destruct (if h_choked s then _ else _) as [s2 a2]. exact A.
    - destruct b as [[|]|]; reflexivity.
  Qed.

  (* in every reachable composition whose task is configured with the manager's piece count, the FIRST command an
     event makes the task send (the manager has not moved since) is sendable; with WFm and a chooser answer in range
     the manager therefore does not panic on it *)
  Theorem own_first_command_sendable ovf a m s ev r k rest :
    creach sha1 cf disk ovf a m s -> c_pieces_num cf = pieces_n m ->
    cmds_of (acts_of (hstep sha1 cf disk ovf s ev r)) = k :: rest -> sendable m (to_cmd a k).
  Proof.
    intros HR Hn Hk. destruct (pair_reachable sha1 cf disk ovf a m s HR) as [HP [p Ep]].
    pose proof (commands_ok ovf s ev r) as HC.
    assert (Hin : In (ACmd k) (acts_of (hstep sha1 cf disk ovf s ev r))).
    { assert (I0 : In k (cmds_of (acts_of (hstep sha1 cf disk ovf s ev r)))) by (rewrite Hk; left; reflexivity).
      unfold cmds_of in I0. apply in_flat_map in I0. destruct I0 as (x & Hx & Hkx). destruct x; try contradiction.
      destruct Hkx as [->|[]]. exact Hx. }
    rewrite forallb_forall in HC. specialize (HC _ Hin).
    destruct k; cbn [to_cmd sendable cact_ok] in *; try exact I.
    - rewrite Ep. discriminate.
    - rewrite Ep. discriminate.
    - unfold pieces_n, len in Hn. lia.
    - intros q Eq. rewrite Ep in Eq. injection Eq as <-. pose proof (HP p Ep) as V. unfold pview, hview in V. injection V as Vi _.
      rewrite Vi. destruct (h_rx s); [discriminate | discriminate HC].
    - intros q Eq. rewrite Ep in Eq. injection Eq as <-. pose proof (HP p Ep) as V. unfold pview, hview in V. injection V as Vi _.
      rewrite Vi. destruct (h_rx s); [discriminate | discriminate HC].
  Qed.

  (* ... and deliverable: the sender is connected (pair_reachable) and a relayed bitfield was validated by the task
     against the same piece count.  With manager_handles: the manager returns Ok on it. *)
  Theorem own_first_command_deliverable ovf a m s ev r k rest :
    creach sha1 cf disk ovf a m s -> c_pieces_num cf = pieces_n m ->
    cmds_of (acts_of (hstep sha1 cf disk ovf s ev r)) = k :: rest -> deliverable m (to_cmd a k).
  Proof.
    intros HR Hn Hk. split; [eapply own_first_command_sendable; eassumption|].
    destruct (pair_reachable sha1 cf disk ovf a m s HR) as [_ [p Ep]].
    pose proof (commands_ok ovf s ev r) as HC.
    assert (Hin : In (ACmd k) (acts_of (hstep sha1 cf disk ovf s ev r))).
    { assert (I0 : In k (cmds_of (acts_of (hstep sha1 cf disk ovf s ev r)))) by (rewrite Hk; left; reflexivity).
      unfold cmds_of in I0. apply in_flat_map in I0. destruct I0 as (x & Hx & Hkx). destruct x; try contradiction.
      destruct Hkx as [->|[]]. exact Hx. }
    rewrite forallb_forall in HC. specialize (HC _ Hin).
    destruct k; cbn [to_cmd cmd_addr cact_ok] in *; try (rewrite Ep; discriminate).
    split; [rewrite Ep; discriminate | rewrite <- Hn; exact HC].
  Qed.
End Sendable.
