"""C03 — verified pieces are reassembled into exactly the described files."""
import itertools
from driver import Case
from extbase import ExtBase, geometry_case, PATHS


class C03(ExtBase):
    id = "C03"
    proof_target = "Props/C03.vo"
    theorems = ["C03_partition", "C03_extract", "C03_lengths", "C03_files_concat", "C03_pinned_refuted"]
    coq_header = ("From Rdest Require Import Base BCodec Metainfo Extract Corr.MetaCase Corr.C03.\n"
                  "Open Scope N_scope.\nDefinition codes := codes03.\n")
    rule = ("torrent geometries: piece length 1..5 x file-length lists (0..7 each, up to 4 files; a seeded sample in the "
            "quick tier, all of them in the thorough tier) plus 16 KiB-scale geometries, single- and multi-file, nested "
            "directories, and inconsistent piece counts (for model/impl agreement only). The real extractor runs on a "
            "piece store built from the content; every output file is read back. Non-trivial: consistent geometries "
            "with at least one file; distinct lines.")
    statement_status = "full statement proved for the repaired extractor (C03_extract); the pinned code is refuted by C03_pinned_refuted"

    def corpus(self):
        return [geometry_case(self.tok(), b"n", 4, [1, 2, 7], [b"f1", b"f2", b"f3"], kind="corpus"),
                geometry_case(self.tok(), b"n", 4, [4, 0, 4], [b"a", b"b", b"c"], kind="corpus"),
                geometry_case(self.tok(), b"n", 3, [2, 0, 0, 5], [b"a", b"b", b"d/c", b"d/e"], kind="corpus"),
                geometry_case(self.tok(), b"solo", 4, [10], [b"solo"], single=True, kind="corpus"),
                geometry_case(self.tok(), b"solo", 4, [0], [b"solo"], single=True, kind="corpus")]

    def gen(self, rng, tier):
        cases = []
        allg = []
        for pl in range(1, 6):
            for k in range(1, 5):
                for lens in itertools.product(range(0, 8), repeat=k):
                    allg.append((pl, lens))
        if tier == "thorough":
            pick = allg
            self.exhaustive = True
        else:
            pick = rng.sample(allg, {"quick": 700, "search": 3000}.get(tier, 700))
        for pl, lens in pick:
            paths = PATHS[:len(lens)]
            single = len(lens) == 1 and rng.random() < 0.5
            cases.append(geometry_case(self.tok(), b"top", pl, list(lens), [b"top"] if single else paths, single=single,
                                       seed=rng.randrange(250)))
        # inconsistent piece counts: agreement of model and implementation only
        for _ in range({"quick": 40, "thorough": 400, "search": 100}.get(tier, 40)):
            pl = rng.randrange(1, 6)
            lens = [rng.randrange(0, 8) for _ in range(rng.randrange(1, 4))]
            total = sum(lens)
            n = max(0, -(-total // pl) + rng.choice([-1, 1, 2]))
            cases.append(geometry_case(self.tok(), b"top", pl, lens, PATHS[:len(lens)], npieces=n, kind="inconsistent",
                                       seed=rng.randrange(250)))
            cases[-1].nontrivial = False
        # block-scale geometries
        for _ in range({"quick": 4, "thorough": 30, "search": 6}.get(tier, 4)):
            pl = rng.choice([16384, 16384 * 2, 20000])
            lens = [rng.choice([0, 1, pl - 1, pl, pl + 1, rng.randrange(0, 3 * pl)]) for _ in range(rng.randrange(1, 4))]
            cases.append(geometry_case(self.tok(), b"big", pl, lens, PATHS[:len(lens)], kind="blockscale",
                                       seed=rng.randrange(250)))
        return cases


from metabase import MetaBase


class C03Geom(MetaBase):
    """the partition clause on the accessors themselves, for geometries far too large to extract: totals around and above
    4 GiB and 2^40, piece lengths that are no power of two or do not fit 32 bits, one to three files; the real
    Metainfo::piece_length / total_length / file_piece_ranges of the first and last pieces against the model and against
    the partition read from the dictionary"""
    id = "C03"
    model_targets = ["Pack.vo", "Corr/C17.vo"]
    coq_header = ("From Rdest Require Import Base BCodec DeepFinder Metainfo Corr.MetaCase Corr.C17.\nOpen Scope N_scope.\n"
                  "Definition codes := codes03g.\n")
    corr_name = "Metainfo accessors on large geometries vs Metainfo.v"
    classes = {}
    assumptions = []
    rule = ""

    def doc(self, pl, lens):
        total = sum(lens)
        n = -(-total // pl)
        pieces = b"".join(bytes([65 + (i % 26)]) * 20 for i in range(n))
        if len(lens) == 1:
            files = b"6:lengthi%de" % lens[0]
        else:
            files = b"5:filesl" + b"".join(b"d6:lengthi%de4:path2:f%dee" % (l, k) for k, l in enumerate(lens)) + b"e"
        info = b"d" + files + b"4:name1:n12:piece lengthi%de6:pieces%d:" % (pl, len(pieces)) + pieces + b"e"
        return b"d8:announce3:URL4:info" + info + b"e"

    def mkg(self, pl, lens, kind):
        d = self.doc(pl, lens)
        return Case("meta %s" % d.hex(), kind, {"pl": pl, "lens": lens})

    def corpus(self):
        G = 2 ** 30
        return [self.mkg(3 * 2 ** 20, [5 * G + 12345], "huge"), self.mkg(5000000, [4 * G, 7], "huge"),
                self.mkg(2 ** 32, [2 ** 33 + 7], "huge"), self.mkg(2 ** 32 + 5, [3 * 2 ** 32, 11, 0], "huge"),
                self.mkg(2 ** 22, [4 * G], "huge"), self.mkg(16384, [40000], "small")]

    def gen(self, rng, tier):
        k = {"quick": 14, "thorough": 120, "search": 30}.get(tier, 14)
        out = []
        for _ in range(k):
            total = rng.choice([2 ** 32, 2 ** 32 + 1, 2 ** 32 - 1, 5 * 2 ** 30 + rng.randrange(10 ** 6), 2 ** 33 + 7, 2 ** 40 + 3,
                                rng.randrange(1, 2 ** 34), rng.randrange(1, 2 ** 20)])
            lo = max(1, total // 500)
            pl = rng.choice([lo + rng.randrange(1, 10 ** 6), 3 * 2 ** 20 if total // (3 * 2 ** 20) < 2000 else lo + 1,
                             2 ** 32 if total >= 2 ** 32 else lo + 3, 2 ** 32 + 5 if total >= 2 ** 32 else lo + 5,
                             1 << max(1, (total // 400).bit_length())])
            nf = rng.choice([1, 1, 2, 3])
            cuts = sorted(rng.randrange(0, total + 1) for _ in range(nf - 1))
            lens = [b - a for a, b in zip([0] + cuts, cuts + [total])]
            out.append(self.mkg(pl, lens, "huge" if total >= 2 ** 32 else "geometry"))
        return out


PROP = C03()
PROP.parts = [PROP, C03Geom()]
