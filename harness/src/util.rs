//! Shared helpers: hex, line reader, panic capture.
use std::panic::{self, AssertUnwindSafe};

pub fn hex(b: &[u8]) -> String {
    let mut s = String::with_capacity(b.len() * 2);
    for x in b {
        s.push_str(&format!("{:02x}", x));
    }
    if s.is_empty() {
        s.push('-');
    }
    s
}

pub fn unhex(s: &str) -> Vec<u8> {
    if s == "-" {
        return vec![];
    }
    if s.contains('+') {
        let mut out = vec![];
        for part in s.split('+') {
            out.extend_from_slice(&unhex(part));
        }
        return out;
    }
    if let Some(rest) = s.strip_prefix('@') {
        let mut it = rest.split(':');
        let seed: u64 = it.next().unwrap().parse().unwrap();
        let n: usize = it.next().unwrap().parse().unwrap();
        return prand(seed, n);
    }
    let bytes = s.as_bytes();
    let mut out = Vec::with_capacity(bytes.len() / 2);
    let v = |c: u8| -> u8 {
        match c {
            b'0'..=b'9' => c - b'0',
            b'a'..=b'f' => c - b'a' + 10,
            b'A'..=b'F' => c - b'A' + 10,
            _ => panic!("bad hex"),
        }
    };
    let mut i = 0;
    while i + 1 < bytes.len() {
        out.push(v(bytes[i]) * 16 + v(bytes[i + 1]));
        i += 2;
    }
    out
}

/// Run `f`, mapping a panic to None.
pub fn guarded<T>(f: impl FnOnce() -> T) -> Option<T> {
    panic::catch_unwind(AssertUnwindSafe(f)).ok()
}

pub fn silence_panics() {
    panic::set_hook(Box::new(|_| {}));
}

pub fn read_lines(path: &str) -> Vec<String> {
    std::fs::read_to_string(path)
        .expect("cannot read case file")
        .lines()
        .map(|l| l.to_string())
        .collect()
}

/// Same LCG as Base.prand (Coq) and vlib.prand (Python).
pub fn prand(seed: u64, n: usize) -> Vec<u8> {
    let mut x = seed;
    let mut out = Vec::with_capacity(n);
    for _ in 0..n {
        x = (x * 1103515245 + 12345) % 2147483648;
        out.push(((x >> 16) & 255) as u8);
    }
    out
}
