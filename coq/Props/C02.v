(* C02 — an honest swarm always leads to a complete, identical download.
   Liveness over the schedules of an async runtime.  Machine-checked here: the ingredients, and the complete download
   for the sequential schedule with one honest seeder (C02_seeder_download_completes).  The fairness argument that
   extends this to several peers under every schedule, and its validity for tokio's scheduler, is NOT machine-checked. *)
From Rdest Require Import Base BCodec Consts Wire Manager MgrProofs Handler HandlerProofs Metainfo Extract ExtractProofs Tracker TrackerProofs Stats Corr.Stats StatsProofs TraceProofs PieceProofs LiveProofs.
Open Scope N_scope.

(* variant: the number of pieces still to obtain never increases *)
Theorem C02_missing_nonincreasing : forall m c pick m' r bc sp, mstep m c pick = Ok (m', r, bc, sp) ->
  still_missing m' <= still_missing m.
Proof. exact still_missing_nonincreasing. Qed.

(* progress of the chooser: if the peer can give a piece the client wants, something is picked *)
Theorem C02_pick_exists : forall m p j, In j (indices m) -> eligible m p j = true -> pick_ok m p None = false.
Proof. exact pick_exists. Qed.

(* a picked piece is asked for at once: the assignment writes its first blocks, and they tile the piece *)
Theorem C02_assignment_requests : forall cf int i plen r a, new_piece_request cf int i plen = (r, a) ->
  rx_index r = i /\ rx_requested r ++ rx_left r = left_blocks plen /\
  requests_in a = map (fun bl => (i, fst bl, snd bl)) (rx_requested r) /\ (length (rx_requested r) <= 2)%nat.
Proof. exact new_piece_request_spec. Qed.

(* the tracker phase cannot hang the manager *)
Theorem C02_tracker_no_deadlock : forall fails s, reachable Session_join_tracker_only_on_resp fails s -> final s = false ->
  exists st s', st <> StMgrOther /\ tnext Session_join_tracker_only_on_resp s st = Some s'.
Proof. exact no_deadlock. Qed.

(* once every piece is owned, extraction yields exactly the described files (any geometry) *)
Theorem C02_extraction_identical : forall ovf m content store, Geometry m content -> StoreOk m content store ->
  extract Extractor_tail_from_start store ovf m = Ok (spec_files m content).
Proof. exact extract_ok. Qed.

(* PROGRESS OF ONE ASSIGNMENT under an honest peer, for every piece length: after the manager assigned piece i (whose
   content hashes to the torrent's hash for i) the task has asked for the first blocks; if the peer answers the
   outstanding requests in order with the right bytes, every answer but the last is handled without ending the task, and
   the last one writes exactly the content under the piece's hash and reports PieceDone (induction over the tiling;
   the buffer after b bytes is content[0..b) followed by zeros) *)
Theorem C02_assigned_piece_completes : forall sha1 cf disk ovf i content,
  bytes_eqb (sha1 content) (hash_of cf i) = true ->
  forall int s r a reply, 0 < len content -> new_piece_request cf int i (len content) = (r, a) ->
  h_hs_done s = true -> h_rx s = Some r ->
  exists s1 pre bl_last, left_blocks (len content) = pre ++ [bl_last] /\
    run sha1 cf disk ovf s (early i content pre) = Some s1 /\
    hstep sha1 cf disk ovf s1 (EFrame (honest_answer i content bl_last)) reply =
      after_piece_finish cf (set_rx (set_ka s1 0) None) [AWrite (hash_of cf i) content; ACmd KPieceDone] reply.
Proof. intros sha1 cf disk ovf i content Hh. exact (assigned_piece_completes sha1 cf disk ovf i content Hh). Qed.

(* ONE HONEST SEEDER SUFFICES -- the sequential core of the liveness claim, machine-checked.  Among the manager's
   peers (the others hold no reservation and stay silent) there is one that advertises every piece, does not choke us and answers the requests of an assignment in order with the right
   bytes; the chooser is the code's (rarest first; C02_seeder_any_chooser: any function meeting C13's specification).
   From the first assignment on, every iteration (answers -> verification and write -> PieceDone -> owned, broadcast,
   next pick -> next requests) decreases the number of missing pieces by one and the loop ends with every piece
   verified, written and owned.  For every number of pieces and every piece length. *)
Theorem C02_seeder_download_completes : forall sha1 cf disk ovf a content n m s c,
  still_missing m = N.of_nat n -> Cur sha1 cf a content m s c ->
  exists m', Download sha1 cf disk ovf a content (fun m0 p0 => choose_with (rarest_list m0) p0) (m, s, c) m' /\
             all_have (m_status m') = true.
Proof. exact seeder_download_completes_rarest. Qed.
Theorem C02_seeder_any_chooser : forall sha1 cf disk ovf a content choose,
  (forall m p, pick_ok m p (choose m p) = true) ->
  forall n m s c, still_missing m = N.of_nat n -> Cur sha1 cf a content m s c ->
  exists m', Download sha1 cf disk ovf a content choose (m, s, c) m' /\ all_have (m_status m') = true.
Proof. exact seeder_download_completes. Qed.
(* ... and the loop is reached from the connection itself: the seeder's handshake, its bitfield with every piece and,
   after our Interested, its unchoke end -- whenever something is missing -- in the first assignment *)
Theorem C02_seeder_from_connection : forall sha1 cf disk ovf a content choose,
  (forall m p, pick_ok m p (choose m p) = true) -> forall m0 p0 s0 (pid bs : bytes),
  Good sha1 cf content m0 ->
  (forall j x, nthN (m_status m0) j = Some x -> x = Missing \/ x = Manager.Have) -> all_have (m_status m0) = false ->
  pget (m_peers m0) a = Some p0 -> p_piece_index p0 = None -> length (p_pieces p0) = length (m_status m0) ->
  to_vec bs (pieces_n m0) = Some (repeat true (length (m_status m0))) -> bitfield_validate bs (c_pieces_num cf) = true ->
  h_peer_id s0 = None -> h_hs_done s0 = false -> h_choked s0 = true -> h_rx s0 = None ->
  exists m3 s3 c m', Cur sha1 cf a content m3 s3 c /\ still_missing m3 = still_missing m0 /\
                     Download sha1 cf disk ovf a content choose (m3, s3, c) m' /\ all_have (m_status m') = true.
Proof. exact seeder_from_connection. Qed.
Example C02_seeder_nonvacuous : Cur (fun x => x) lx_cf 1 lx_content lx_m lx_s 0 /\ still_missing lx_m = N.of_nat 2.
Proof. exact live_nonvacuous. Qed.

(* WHERE THE FULL STATEMENT FAILS (known finding sole-holder-idle-after-reserver-left), in the model: four legitimate
   steps (every pick one the chooser can make) lead to a manager state in which piece 8 is Missing again, its only
   remaining holder is connected, and nothing will ever ask it: we are not interested in it, it holds no assignment,
   it chokes us, and re-evaluation happens only on its own events *)
Theorem C02_refuted_sole_holder_left_idle :
  match sh_run with
  | Ok m => nthN (m_status m) 8 = Some Missing /\
            exists p, m_peers m = [(2, p)] /\ nth 8 (p_pieces p) false = true /\
                      p_am_interested p = false /\ p_piece_index p = None /\ p_choked p = true
  | _ => False
  end.
Proof. exact sole_holder_left_idle. Qed.

(* no waiting for an Unchoke that will not come: a peer that does not choke us, holds no assignment, and announces a
   piece we miss is asked for it in the same exchange *)
Theorem C02_idle_announcer_asked : forall m a i pick p st m' r bc sp,
  pget (m_peers m) a = Some p -> nthN (m_status m) i = Some st ->
  is_missing st = true -> p_am_interested p = false -> p_choked p = false -> p_piece_index p = None ->
  mstep m (CHave a i) pick = Ok (m', r, bc, sp) ->
  exists l, r = RHave_IntReq i l /\ nthN (m_status m') i = Some (Reserved 1) /\
            exists p', pget (m_peers m') a = Some p' /\ p_piece_index p' = Some i.
Proof. exact idle_announcer_is_asked. Qed.

(* no surviving connection crashes on account of its transfer statistics: for every sequence of byte counts, unexpected
   blocks and timer ticks whose per-interval totals fit u64, with and without overflow checks, the statistics code does
   not panic and every report is the mean of the last two intervals (clamped to u32) -- the repaired code; the pinned
   code (sum::<u32>() of truncated values) panicked on two intervals of 2 GiB, or reported 0 in a release build *)
Theorem C02_stats_exact : forall ovf ops, fits ops 0 0 0 ->
  srun_with true ovf stats_new ops [] = Ok (expected ops None None 0 0 0).
Proof. exact stats_exact_from_start. Qed.
(* the model evaluated by the correspondence is the repaired one *)
Theorem C02_stats_model_repaired : srun = srun_with true.
Proof. reflexivity. Qed.
Theorem C02_stats_pinned_refuted :
  srun_with false true stats_new [SDown 2147483648; STick; SDown 2147483648; STick] [] = Panic /\
  srun_with false false stats_new [SDown 2147483648; STick; SDown 2147483648; STick] [] = Ok [(Some 0, Some 0, 0)] /\
  fits [SDown 2147483648; STick; SDown 2147483648; STick] 0 0 0.
Proof. exact stats_pinned_refuted. Qed.

Print Assumptions C02_missing_nonincreasing.
Print Assumptions C02_pick_exists.
Print Assumptions C02_assignment_requests.
Print Assumptions C02_tracker_no_deadlock.
Print Assumptions C02_extraction_identical.
Print Assumptions C02_stats_exact.
Print Assumptions C02_stats_pinned_refuted.
Print Assumptions C02_stats_model_repaired.
Print Assumptions C02_idle_announcer_asked.
Print Assumptions C02_assigned_piece_completes.
Print Assumptions C02_seeder_download_completes.
Print Assumptions C02_seeder_any_chooser.
Print Assumptions C02_seeder_from_connection.
Print Assumptions C02_refuted_sole_holder_left_idle.
