(* Correspondence for C19 (reply parsing).  Class bit 1 = non-utf8-failure-reason. *)
From Rdest Require Import Base BCodec Metainfo TrackerResp Corr.MetaCase.
Open Scope N_scope.

Inductive case := CResp (body : bytes) (impl : result (list (bytes * bytes))).

Definition peers_eqb (a b : list (bytes * bytes)) : bool :=
  list_eqb (fun x y => bytes_eqb (fst x) (fst y) && bytes_eqb (snd x) (snd y)) a b.

(* oracle, written against the decoded document: some top-level dictionary
   without a failure reason whose well-formed peer entries, in order, are the
   answer; a dictionary carrying a failure reason (any string) never yields peers *)
Definition spec_peer (v : bvalue) : option (bytes * bytes) :=
  match v with
  | BDict e => match map_get k_ip e, map_get k_peer_id e, map_get k_port e with
               | Some (BStr ip), Some (BStr id), Some (BInt port) =>
                   if utf8_valid ip && (len id =? 20) && (0 <=? port)%Z
                   then Some (ip ++ [58] ++ dec_N (Z.to_N port), id) else None
               | _, _, _ => None
               end
  | _ => None
  end.
Definition spec_dict_ok (d : dict) (out : list (bytes * bytes)) : bool :=
  match map_get k_failure d, map_get k_interval d, map_get k_peers d with
  | Some (BStr _), _, _ => false
  | _, Some (BInt i), Some (BList l) => (0 <=? i)%Z && peers_eqb (filter_map spec_peer l) out
  | _, _, _ => false
  end.
Definition has_str_failure (d : dict) : bool :=
  match map_get k_failure d with Some (BStr _) => true | _ => false end.

Definition code (c : case) : N :=
  match c with
  | CResp body impl =>
      let model := do t <- tracker_resp_of body; Ok (peers_out t) in
      let k := res_eqb peers_eqb model impl in
      let '(o, cls) :=
        match impl, decode body with
        | Ok out, Ok vs =>
            if existsb (fun v => match v with BDict d => spec_dict_ok d out | _ => false end) vs then (true, 0)
            else (false, if existsb (fun v => match v with BDict d => has_str_failure d | _ => false end) vs then 1 else 0)
        | Ok _, _ => (false, 0)
        | Err, Ok vs =>
            (* a failure is right only if no top-level dictionary is a well-formed success reply *)
            (negb (existsb (fun v => match v with
                                     | BDict d => match map_get k_failure d, map_get k_interval d, map_get k_peers d with
                                                  | Some (BStr _), _, _ => false
                                                  | _, Some (BInt i), Some (BList _) => (0 <=? i)%Z
                                                  | _, _, _ => false
                                                  end
                                     | _ => false
                                     end) vs), 0)
        | Err, _ => (true, 0)
        | _, _ => (false, 0)
        end in
      (if k then 0 else 1) + (if o then 0 else 2 + 4 * cls)
  end.
Definition codes (cs : list case) : list N := map code cs.
