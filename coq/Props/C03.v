(* C03 — verified pieces are reassembled into exactly the described files. *)
From Rdest Require Import Base BCodec Metainfo Extract ExtractProofs.
Open Scope N_scope.

(* For every torrent whose piece count matches its total length (Geometry), the per-piece
   lengths the client computes partition the content exactly ... *)
Theorem C03_partition : forall ovf m content, Geometry m content ->
  concat (map (fun i => piece_data content (pl_of m) (N.of_nat i)) (seq 0 (N.to_nat (pieces_num m)))) = content /\
  forall i, i < pieces_num m ->
    piece_length ovf m i = Ok (len (piece_data content (pl_of m) i)) /\
    0 < len (piece_data content (pl_of m) i) <= pl_of m.
Proof. exact partition_ok. Qed.

(* ... and extraction from a piece store holding those pieces writes, for each listed file in
   order, exactly the bytes at its offset in the content: any number of files, zero-length
   files, files smaller than a piece, any alignment.  Extractor_tail_from_start is the state
   of src/extractor.rs pinned by the correspondence. *)
Theorem C03_extract : forall ovf m content store, Geometry m content -> StoreOk m content store ->
  extract Extractor_tail_from_start store ovf m = Ok (spec_files m content).
Proof. exact extract_ok. Qed.

Theorem C03_lengths : forall m content, Geometry m content ->
  map (fun pd => len (snd pd)) (spec_files m content) = map f_length (m_files m).
Proof.
  intros m content (_ & Hlen & _). unfold spec_files. apply spec_go_lengths. rewrite Hlen. apply N.le_refl.
Qed.

(* the files written, concatenated in the listed order, are the whole content: nothing lost,
   duplicated or reordered across file boundaries *)
Theorem C03_files_concat : forall m content, Geometry m content ->
  concat (map snd (spec_files m content)) = content.
Proof. exact spec_files_concat. Qed.

Check C03_files_concat : forall m content, Geometry m content -> concat (map snd (spec_files m content)) = content.
Check C03_extract : forall ovf m content store, Geometry m content -> StoreOk m content store ->
  extract Extractor_tail_from_start store ovf m = Ok (spec_files m content).

(* The code as pinned (tail read always from byte 0 of the last piece) violates the statement:
   content a..j, piece length 4, files of 1, 2 and 7 bytes: the second file gets "abc". *)
Definition wm : metainfo :=
  mkmeta [85] [110] 4 [[1];[2];[3]] [mkfile 1 [102;49]; mkfile 2 [102;50]; mkfile 7 [102;51]] [].
Definition wc : bytes := [97;98;99;100;101;102;103;104;105;106].

Theorem C03_pinned_refuted :
  extract false (store_of wm wc 4) true wm <> Ok (spec_files wm wc).
Proof. vm_compute. discriminate. Qed.

(* non-vacuity: the witness geometry meets the hypotheses, and the repaired extractor is right on it *)
Example C03_nonvacuous : Geometry wm wc /\ extract true (store_of wm wc 4) true wm = Ok (spec_files wm wc).
Proof. split; [unfold Geometry; vm_compute; repeat split; try reflexivity; try discriminate; right; reflexivity | vm_compute; reflexivity]. Qed.

Print Assumptions C03_partition.
Print Assumptions C03_extract.
Print Assumptions C03_lengths.
Print Assumptions C03_pinned_refuted.
Print Assumptions C03_files_concat.
