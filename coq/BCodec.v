(* BCodec.v — executable mirror of src/bcodec/{bvalue,bdecoder,bencoder}.rs.

   The decoder works on the remaining suffix of the input (the Rust iterator).
   Two of its behaviours are parameters so that the same definition yields
   both the code as it is and the strict decoder the property asks for:
     lenient_end   : values_vector returns Ok when the input ends inside a
                     list/dictionary (the code's behaviour: true);
     lenient_colon : parse_byte_str does not notice a missing ':'
                     (the code's behaviour before the repair: true). *)
From Rdest Require Export Base.
From Rdest Require Import ShapeCheck.   (* the vocabulary of the code is the one modelled: see ShapeCheck.v *)
Open Scope N_scope.

Inductive bvalue : Type :=
| BInt (z : Z)
| BStr (s : bytes)
| BList (l : list bvalue)
| BDict (d : list (bytes * bvalue)).   (* HashMap: kept strictly sorted by key *)

(* ---- ASCII ---------------------------------------------------------------- *)
Definition ch_colon : N := 58.
Definition ch_minus : N := 45.
Definition ch_d : N := 100.
Definition ch_e : N := 101.
Definition ch_i : N := 105.
Definition ch_l : N := 108.
Definition ch_0 : N := 48.
Definition is_digit (b : N) : bool := (48 <=? b) && (b <=? 57).

(* ---- decimal ---------------------------------------------------------------- *)
Definition digits_val (ds : bytes) : N := fold_left (fun acc d => acc * 10 + (d - 48)) ds 0.

(* to_string of an unsigned number; 20 digits cover u64 *)
Fixpoint print_dec (fuel : nat) (n : N) : bytes :=
  match fuel with
  | O => []
  | S f => if n <? 10 then [48 + n] else print_dec f (n / 10) ++ [48 + n mod 10]
  end.
Definition dec_N (n : N) : bytes := print_dec 20 n.
Definition dec_Z (z : Z) : bytes :=
  if (z <? 0)%Z then ch_minus :: dec_N (Z.to_N (- z)) else dec_N (Z.to_N z).

(* str::parse::<usize>() on an all-digit string: overflow is an error *)
Definition parse_usize (ds : bytes) : option N :=
  match ds with
  | [] => None
  | _ => if forallb is_digit ds then
           let v := digits_val ds in if v <? 18446744073709551616 then Some v else None
         else None
  end.

(* str::parse::<i64>() on a string made of digits and '-' *)
Definition parse_i64 (s : bytes) : option Z :=
  match s with
  | [] => None
  | c :: ds =>
      if c =? ch_minus then
        match ds with
        | [] => None
        | _ => if forallb is_digit ds then
                 let v := digits_val ds in
                 if v <=? 9223372036854775808 then Some (- Z.of_N v)%Z else None
               else None
        end
      else if forallb is_digit s then
        let v := digits_val s in
        if v <? 9223372036854775808 then Some (Z.of_N v) else None
      else None
  end.

(* ---- lexicographic order on keys, insertion into a sorted map ----------- *)
Fixpoint bytes_ltb (a b : bytes) : bool :=
  match a, b with
  | [], [] => false
  | [], _ :: _ => true
  | _ :: _, [] => false
  | x :: a', y :: b' => if x <? y then true else if y <? x then false else bytes_ltb a' b'
  end.

(* HashMap::insert: replaces the value of an existing key *)
Fixpoint map_insert {V} (k : bytes) (v : V) (m : list (bytes * V)) : list (bytes * V) :=
  match m with
  | [] => [(k, v)]
  | (k', v') :: m' =>
      if bytes_ltb k k' then (k, v) :: m
      else if bytes_ltb k' k then (k', v') :: map_insert k v m'
      else (k, v) :: m'
  end.
Definition map_of_list {V} (kvs : list (bytes * V)) : list (bytes * V) :=
  fold_left (fun m kv => map_insert (fst kv) (snd kv) m) kvs [].

Fixpoint map_get {V} (k : bytes) (m : list (bytes * V)) : option V :=
  match m with
  | [] => None
  | (k', v) :: m' => if bytes_eqb k k' then Some v else map_get k m'
  end.

(* ---- decoder --------------------------------------------------------------- *)

(* take_while(|b| b != c): the matching prefix and what is left after the
   first non-matching element, which the iterator has consumed too *)
Fixpoint take_until (c : N) (s : bytes) : bytes * bytes * bool :=
  match s with
  | [] => ([], [], false)
  | b :: r => if b =? c then ([], r, true)
              else let '(p, rest, found) := take_until c r in (b :: p, rest, found)
  end.

Section Decoder.
  Variable lenient_end : bool.
  Variable lenient_colon : bool.

  (* parse_byte_str: first digit already consumed.  Returns value, raw text, rest. *)
  Definition parse_byte_str (first : N) (s : bytes) : result (bytes * bytes * bytes) :=
    let '(lenrest, after, colon) := take_until ch_colon s in
    let len_bytes := first :: lenrest in
    if negb (forallb is_digit len_bytes) then Err else
    match parse_usize len_bytes with
    | None => Err
    | Some n =>
        if negb colon && negb lenient_colon then Err else
        (* it.take(n) yields fewer than n elements: DecodeNotEnoughChars
           (compared before converting, n may be as large as 2^64-1) *)
        if len after <? n then Err else
        let v := firstn (N.to_nat n) after in
        Ok (v, len_bytes ++ [ch_colon] ++ v, skipn (N.to_nat n) after)
    end.

  (* parse_int: 'i' already consumed.  Returns value, raw text, rest. *)
  Definition parse_int (s : bytes) : result (Z * bytes * bytes) :=
    let '(num, after, found) := take_until ch_e s in
    if negb (forallb (fun b => is_digit b || (b =? ch_minus)) num) then Err else
    if negb found then Err else
    let lead0 := match num with
                 | a :: _ :: _ => (a =? ch_0)
                 | _ => false
                 end
                 || match num with
                    | a :: b :: _ => (a =? ch_minus) && (b =? ch_0)
                    | _ => false
                    end in
    if lead0 then Err else
    match parse_i64 num with
    | None => Err
    | Some z => Ok (z, [ch_i] ++ num ++ [ch_e], after)
    end.

  (* keys_from_list + zip + collect *)
  Fixpoint dict_pairs (l : list bvalue) : result (list (bytes * bvalue)) :=
    match l with
    | [] => Ok []
    | BStr k :: v :: r => do ps <- dict_pairs r; Ok ((k, v) :: ps)
    | _ => Err                   (* odd number of elements, or key not a string *)
    end.

  (* values_vector; returns the values and the remaining input.  Written in
     open-recursion form: values_body is one iteration of the Rust loop with
     the recursive calls abstracted, values ties the knot with fuel. *)
  Definition values_body (rec : bool -> bytes -> result (list bvalue * bytes))
             (with_end : bool) (s : bytes) : result (list bvalue * bytes) :=
      match s with
      | [] => if with_end && negb lenient_end then Err else Ok ([], [])
      | b :: r =>
        if is_digit b then
          do (v, _, r1) <- parse_byte_str b r;
          do (vs, r2) <- rec with_end r1;
          Ok (BStr v :: vs, r2)
        else if b =? ch_i then
          do (z, _, r1) <- parse_int r;
          do (vs, r2) <- rec with_end r1;
          Ok (BInt z :: vs, r2)
        else if b =? ch_l then
          do (l, r1) <- rec true r;
          do (vs, r2) <- rec with_end r1;
          Ok (BList l :: vs, r2)
        else if b =? ch_d then
          do (l, r1) <- rec true r;
          do ps <- dict_pairs l;
          do (vs, r2) <- rec with_end r1;
          Ok (BDict (map_of_list ps) :: vs, r2)
        else if b =? ch_e then
          if with_end then Ok ([], r) else Err
        else Err
      end.

  Fixpoint values (fuel : nat) : bool -> bytes -> result (list bvalue * bytes) :=
    match fuel with
    | O => fun _ _ => OutOfFuel
    | S f => values_body (values f)
    end.

  Definition decode_with (s : bytes) : result (list bvalue) :=
    do (vs, _) <- values (S (length s)) false s; Ok vs.
End Decoder.

(* Which of the decoder's two lenient behaviours the code has.  The harness
   reports any difference, so this flag is what the correspondence pins down:
   it is `true` for the pinned tree and becomes `false` with the repair. *)
Definition BCodec_lenient_colon : bool := false.
(* Repair flags of src/metainfo.rs, pinned by the correspondence in the same way. *)
Definition Metainfo_reject_zero_piece_length : bool := true.
Definition Metainfo_reject_total_overflow : bool := true.
(* name / file paths that are absolute or contain '..' are refused (after the repair for C04) *)
Definition Metainfo_reject_unsafe_paths : bool := true.
(* src/tracker_resp.rs: a failure reason that is not valid UTF-8 still is a failure (after the repair) *)
Definition TrackerResp_lossy_reason : bool := true.
Definition decode (s : bytes) : result (list bvalue) := decode_with true BCodec_lenient_colon s.

(* ---- encoder --------------------------------------------------------------- *)

Definition enc_str (s : bytes) : bytes := dec_N (len s) ++ [ch_colon] ++ s.

Fixpoint insert_sorted (kv : bytes * bytes) (l : list (bytes * bytes)) : list (bytes * bytes) :=
  match l with
  | [] => [kv]
  | kv' :: l' => if bytes_ltb (fst kv') (fst kv) then kv' :: insert_sorted kv l' else kv :: l
  end.
Definition sort_by_key (l : list (bytes * bytes)) : list (bytes * bytes) := fold_right insert_sorted [] l.

Fixpoint encode (v : bvalue) : bytes :=
  match v with
  | BInt z => [ch_i] ++ dec_Z z ++ [ch_e]
  | BStr s => enc_str s
  | BList l => [ch_l]
                 ++ concat ((fix enc_list (l : list bvalue) : list bytes :=
                               match l with
                               | [] => []
                               | v :: l' => encode v :: enc_list l'
                               end) l)
                 ++ [ch_e]
  | BDict d =>
      [ch_d]
        ++ concat (map (fun ke => enc_str (fst ke) ++ snd ke)
                       (sort_by_key
                          ((fix enc_entries (d : list (bytes * bvalue)) : list (bytes * bytes) :=
                              match d with
                              | [] => []
                              | (k, v) :: d' => (k, encode v) :: enc_entries d'
                              end) d)))
        ++ [ch_e]
  end.

(* ---- decidable equality ------------------------------------------------------ *)
Fixpoint bvalue_eqb (a b : bvalue) : bool :=
  match a, b with
  | BInt x, BInt y => (x =? y)%Z
  | BStr x, BStr y => bytes_eqb x y
  | BList x, BList y =>
      (fix go (x y : list bvalue) : bool :=
         match x, y with
         | [], [] => true
         | a :: x', b :: y' => bvalue_eqb a b && go x' y'
         | _, _ => false
         end) x y
  | BDict x, BDict y =>
      (fix go (x y : list (bytes * bvalue)) : bool :=
         match x, y with
         | [], [] => true
         | (k, a) :: x', (k', b) :: y' => bytes_eqb k k' && bvalue_eqb a b && go x' y'
         | _, _ => false
         end) x y
  | _, _ => false
  end.

Definition res_values_eqb (a b : result (list bvalue)) : bool :=
  match a, b with
  | Ok x, Ok y => bvalue_eqb (BList x) (BList y)
  | Err, Err | Panic, Panic | OutOfFuel, OutOfFuel => true
  | _, _ => false
  end.
