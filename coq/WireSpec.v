(* WireSpec.v — the BEP3 byte layouts written independently of the code's
   constants: literal numbers only. *)
From Rdest Require Export Base.
From Rdest Require Import Wire.
Open Scope N_scope.

(* "BitTorrent protocol" *)
Definition pstr : bytes :=
  [66; 105; 116; 84; 111; 114; 114; 101; 110; 116; 32; 112; 114; 111; 116; 111; 99; 111; 108].

(* big-endian 32-bit field, stated as a relation: four bytes whose weighted sum is n *)
Definition BE32 (n : N) (bs : bytes) : Prop :=
  exists a b c d, bs = [a; b; c; d] /\ a < 256 /\ b < 256 /\ c < 256 /\ d < 256
                  /\ n = a * 2^24 + b * 2^16 + c * 2^8 + d.

(* <length prefix = 1 + |payload|> <id> <payload> *)
Definition Framed (id : N) (payload : bytes) (out : bytes) : Prop :=
  exists lp, BE32 (1 + len payload) lp /\ out = lp ++ [id] ++ payload.

Definition Bep3 (m : msg) (out : bytes) : Prop :=
  match m with
  | Handshake h p => out = [19] ++ pstr ++ [0;0;0;0;0;0;0;0] ++ h ++ p
  | KeepAlive => out = [0;0;0;0]
  | Choke => Framed 0 [] out
  | Unchoke => Framed 1 [] out
  | Interested => Framed 2 [] out
  | NotInterested => Framed 3 [] out
  | Have i => exists bi, BE32 i bi /\ Framed 4 bi out
  | Bitfield bs => Framed 5 bs out
  | Request i b l => exists bi bb bl, BE32 i bi /\ BE32 b bb /\ BE32 l bl /\ Framed 6 (bi ++ bb ++ bl) out
  | Piece i b blk => exists bi bb, BE32 i bi /\ BE32 b bb /\ Framed 7 (bi ++ bb ++ blk) out
  | Cancel i b l => exists bi bb bl, BE32 i bi /\ BE32 b bb /\ BE32 l bl /\ Framed 8 (bi ++ bb ++ bl) out
  end.

(* the field ranges the property quantifies over: u32 fields, 20-byte hash and
   id, payloads up to the frame limit of 65536 (length prefix included) *)
Definition FieldsOk (m : msg) : Prop :=
  match m with
  | Handshake h p => length h = 20%nat /\ length p = 20%nat
  | Have i => i < 2^32
  | Bitfield bs => 1 + len bs <= 65536
  | Request i b l | Cancel i b l => i < 2^32 /\ b < 2^32 /\ l < 2^32
  | Piece i b blk => i < 2^32 /\ b < 2^32 /\ 9 + len blk <= 65536
  | _ => True
  end.

(* bit i of a piece vector lives in byte i/8, at the (i mod 8)-th most
   significant position *)
Definition bit_of (bs : bytes) (i : nat) : bool :=
  N.testbit (nth (i / 8) bs 0) (N.of_nat (7 - i mod 8)).
