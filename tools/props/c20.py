"""C20 — silent peers are dropped, live ones are kept and kept alive."""
from hndbase import *


def timing_scenario(rng, n, plens, outgoing):
    ev, _ = greet(rng, outgoing, n)
    t = 0
    for _ in range(rng.choice([3, 6, 10, 14])):
        r = rng.random()
        if r < 0.55:
            # land around the timer instants k*120 s +- small offsets, or skip whole intervals
            d = rng.choice([119000, 119990, 120000, 120001, 121000, 1000, 60000, 239999, 240001, 360000, 480000, 10])
            ev.append(ev_wait(d))
        elif r < 0.75:
            ev.append(ev_msg(KEEPALIVE))
        else:
            ev.append(ev_msg(random_peer_msg(rng, max(n, 1), plens), **random_policy(rng, n, plens)))
    return ev


class C20(HndBase):
    id = "C20"
    proof_target = "Props/C20.vo"
    theorems = ["C20_silent", "C20_live", "C20_only_timer_counts", "C20_emit", "C20_release", "C20_live_interval_survives", "C20_silent_run_closes", "C20_handshake_stays"]
    coq_header = ("From Rdest Require Import Base Consts Wire Manager Handler Corr.Hnd.\nOpen Scope N_scope.\n"
                  "Definition codes := codes20.\n")
    rule = ("connections under tokio's paused clock: waits chosen around the 120 s timer instants (k*120 s -10 ms / +0 / +1 ms, "
            "half intervals, several intervals at once), keep-alives only, nothing at all, every other message kind at the "
            "start / middle / end of a silence. The number of keep-alive boundaries crossed is read off the virtual clock. "
            "Oracle: one KeepAlive per elapsed interval, close exactly at the third silent interval, never while other "
            "messages arrive at least once per interval. Non-trivial: histories crossing at least one boundary; distinct lines.")
    statement_status = "see Props/C20.v"

    def corpus(self):
        import random
        rng = random.Random(7)
        silent = greet(rng, False, 2)[0] + [ev_wait(120000), ev_wait(120000), ev_wait(120000), ev_wait(120000)]
        ka = greet(rng, False, 2)[0] + [ev_wait(120000), ev_msg(KEEPALIVE), ev_wait(120000), ev_msg(KEEPALIVE), ev_wait(120000)]
        live = greet(rng, True, 2)[0] + sum([[ev_wait(119000), ev_msg(INTERESTED), ev_wait(1000)] for _ in range(5)], [])
        never = [ev_wait(360000), ev_wait(1000)]
        # the connection ends while the manager's command channel (64 slots) is full of this task's own commands: the
        # KillReq must still get through
        bursts = [(False, greet(rng, False, 2)[0] + [ev_burst(CHOKE, k, True)]) for k in (63, 64, 65, 70)]
        bursts += [(True, greet(rng, True, 2)[0] + [ev_burst(INTERESTED, 130, True)]),
                   (False, greet(rng, False, 2)[0] + [ev_burst(CHOKE, 64, False), ev_close()])]
        return [self.case(Scenario(o, [5, 3], 11, e, "corpus")) for o, e in [(False, silent), (False, ka), (True, live), (False, never)] + bursts]

    def gen(self, rng, tier):
        k = {"quick": 250, "thorough": 5000, "search": 1200}.get(tier, 250)
        cases = []
        for _ in range(k):
            n = rng.choice([1, 2, 3])
            plens = [rng.choice([1, 5, 9]) for _ in range(n)]
            outgoing = rng.random() < 0.5
            ev = timing_scenario(rng, n, plens, outgoing)
            kind = "timing"
            if rng.random() < 0.12:       # ... ending with a burst that fills the command channel as the connection ends
                ev = ev + [ev_burst(rng.choice([CHOKE, INTERESTED, KEEPALIVE]), rng.choice([1, 2, 63, 64, 65, 100]), rng.random() < 0.7)]
                kind = "timing+burst"
            cases.append(self.case(Scenario(outgoing, plens, rng.randrange(1, 10 ** 6), ev, kind)))
        return cases


from mgrbase import MgrBase, protocol_scenario


class C20Mgr(MgrBase):
    """manager side of C20: when a connection is gone (KillReq) its peer state is forgotten and no reservation outlives
    its holders -- end-game duplicates, choked holders and repeated kills included"""
    id = "C20"
    coq_header = ("From Rdest Require Import Base Consts Wire Manager Corr.Mgr.\nOpen Scope N_scope.\n"
                  "Definition codes := codes20m.\n")
    rule = ""

    def corpus(self):
        # two end-game holders of the same piece, both dropped
        a = ["add 1", "init 1", "bf 1 11", "add 2", "init 2", "bf 2 11", "unchoke 1", "unchoke 2", "kill 1", "kill 2"]
        return [self.mk("prod", 2, 4, 7, a, "release-mgr")]

    def gen(self, rng, tier):
        k = {"quick": 200, "thorough": 5000, "search": 1200}.get(tier, 200)
        w = {"unchoke": 6, "choke": 2, "have": 1, "done": 3, "cancel": 1, "kill": 6, "join": 5, "bf": 1, "nint": 1, "tresp": 2, "accept": 2}
        cases = []
        for _ in range(k):
            n = rng.choice([1, 2, 2, 3, 11])
            pl = 4
            total = pl * n - rng.randrange(0, pl)
            ops = protocol_scenario(rng, rng.choice([2, 3, 4]), n, rng.choice([10, 16, 24]), weights=w)
            cases.append(self.mk("prod", n, pl, total, ops, "release-mgr"))
        return cases


PROP = C20()
PROP.parts = [PROP, C20Mgr()]
