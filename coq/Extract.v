(* Extract.v — executable mirror of src/extractor.rs::extract_files and of the
   path handling in Metainfo::file_piece_ranges (PathBuf::from / join), plus the
   lexical path notions used by C04.  Models only. *)
From Rdest Require Export Base BCodec Metainfo.
Open Scope N_scope.

Definition dir_of (m : metainfo) : bytes :=
  if 1 <? len (m_files m) then m_name m else [].
Definition out_path (m : metainfo) (f : file) : bytes := join (dir_of m) (f_path f).

(* lexical depth walk: Some final depth if the path never climbs above its start *)
Fixpoint walk (depth : nat) (cs : list bytes) : option nat :=
  match cs with
  | [] => Some depth
  | c :: r =>
      if bytes_eqb dotdot c then match depth with O => None | S d => walk d r end
      else if bytes_eqb dot c || bytes_eqb [] c then walk depth r
      else walk (S depth) r
  end.
(* a relative path that stays inside the directory it is resolved in *)
Definition inside (p : bytes) : bool :=
  negb (is_abs p) && match walk 0 (split_path p) with Some _ => true | None => false end.

(* ---- extract_files ------------------------------------------------------------ *)
(* Repair flag: the "last chunk" read starts at the file's own offset when the file
   begins in that same piece (pinned code: always from byte 0 of the piece). *)
Definition Extractor_tail_from_start : bool := true.

Section Ex.
  Variable tail_fix : bool.
  Variable store : bytes -> option bytes.     (* piece file "<HEX of hash>.piece" *)

  Definition open_piece (m : metainfo) (i : N) : result bytes :=
    do h <- piece m i;                         (* self.metainfo.piece(i): index panic *)
    match store h with Some d => Ok d | None => Err end.

  (* for piece_index in start.file_index..end.file_index *)
  Fixpoint loop_go (m : metainfo) (s : piece_pos) (fuel : nat) (i e : N) : result bytes :=
    if e <=? i then Ok [] else
    match fuel with
    | O => OutOfFuel
    | S fuel' =>
        do d <- open_piece m i;
        let part := if i =? file_index s then skipn (N.to_nat (byte_index s)) d else d in
        do rest <- loop_go m s fuel' (i + 1) e;
        Ok (part ++ rest)
    end.

  Definition tail_chunk (m : metainfo) (s e : piece_pos) : result bytes :=
    if 0 <? byte_index e then
      do d <- open_piece m (file_index e);
      let skip := if tail_fix && (file_index s =? file_index e) then byte_index s else 0 in
      (* skip <= byte_index e always (positions are monotone); usize subtraction otherwise panics *)
      if byte_index e <? skip then Panic else
      let want := byte_index e - skip in
      let avail := skipn (N.to_nat skip) d in
      if len avail <? want then Err            (* read_exact: UnexpectedEof *)
      else Ok (firstn (N.to_nat want) avail)
    else Ok [].

  Definition extract_one (m : metainfo) (s e : piece_pos) : result bytes :=
    do a <- loop_go m s (S (length (m_pieces m))) (file_index s) (file_index e);
    do b <- tail_chunk m s e;
    Ok (a ++ b).

  Fixpoint extract_go (m : metainfo) (rs : list (bytes * piece_pos * piece_pos)) (fs : list file)
    : result (list (bytes * bytes)) :=
    match rs, fs with
    | (_, s, e) :: rs', f :: fs' =>
        do d <- extract_one m s e;
        do rest <- extract_go m rs' fs';
        Ok ((out_path m f, d) :: rest)
    | _, _ => Ok []
    end.

  (* the list of (path, content) writes of a successful extraction, in file order *)
  Definition extract (ovf : bool) (m : metainfo) : result (list (bytes * bytes)) :=
    do rs <- file_piece_ranges ovf m;
    extract_go m rs (m_files m).
End Ex.

(* the piece store the harness builds: piece i holds content[i*pl .. (i+1)*pl) clipped *)
Definition piece_data (content : bytes) (pl i : N) : bytes := slice content (i * pl) pl.
Fixpoint store_find (content : bytes) (pl : N) (hs : list bytes) (i : N) (h : bytes) : option bytes :=
  match hs with
  | [] => None
  | h' :: r => match store_find content pl r (i + 1) h with      (* later pieces overwrite earlier files *)
               | Some d => Some d
               | None => if bytes_eqb h h' then Some (piece_data content pl i) else None
               end
  end.
Definition store_of (m : metainfo) (content : bytes) (pl : N) : bytes -> option bytes :=
  store_find content pl (m_pieces m) 0.

(* ---- specification side (C03) ---------------------------------------------------- *)
Definition pl_of (m : metainfo) : N := m_piece_length m.

(* a torrent whose piece count matches its total length, and a content of that length *)
Definition Geometry (m : metainfo) (content : bytes) : Prop :=
  0 < pl_of m /\ len content = sum_lengths (m_files m) /\ len content < two64 /\
  len content <= pieces_num m * pl_of m /\
  (pieces_num m = 0 \/ (pieces_num m - 1) * pl_of m < len content).

Definition StoreOk (m : metainfo) (content : bytes) (store : bytes -> option bytes) : Prop :=
  forall i, i < pieces_num m ->
    exists h, nthN (m_pieces m) i = Some h /\ store h = Some (piece_data content (pl_of m) i).

(* the files the torrent describes: consecutive spans of the content *)
Fixpoint spec_go (m : metainfo) (content : bytes) (fs : list file) (off : N) : list (bytes * bytes) :=
  match fs with
  | [] => []
  | f :: r => (out_path m f, slice content off (f_length f)) :: spec_go m content r (off + f_length f)
  end.
Definition spec_files (m : metainfo) (content : bytes) : list (bytes * bytes) :=
  spec_go m content (m_files m) 0.


(* ---- specification side (C04) ---------------------------------------------------- *)
(* the components std::path::Path::components yields for a relative path: empty ones and "." dropped *)
Definition nontrivial (c : bytes) : bool := negb (bytes_eqb c []) && negb (bytes_eqb c dot).
Definition comps (p : bytes) : list bytes := filter nontrivial (split_path p).
