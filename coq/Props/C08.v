(* C08 — only peers of the same torrent (and expected identity) are served. *)
From Rdest Require Import Base Consts Wire Manager Handler HandlerProofs TraceProofs.
Open Scope N_scope.

(* a handshake naming a different info-hash, or a peer id other than the expected one, ends the connection
   with nothing sent (the manager then forgets the peer: KillReq -> kill_peer) *)
Theorem C08_wrong_hash : forall sha1 cf disk ovf s ih pid r, bytes_eqb ih (c_info_hash cf) = false ->
  exists s', hstep sha1 cf disk ovf s (EFrame (Handshake ih pid)) r = HEnd s' [] false.
Proof. exact wrong_hash_closes. Qed.
Theorem C08_wrong_id : forall sha1 cf disk ovf s ih pid expected r, h_peer_id s = Some expected -> bytes_eqb pid expected = false ->
  exists s', hstep sha1 cf disk ovf s (EFrame (Handshake ih pid)) r = HEnd s' [] false.
Proof. exact wrong_id_closes. Qed.

(* before a valid handshake every other message ends the connection with nothing sent *)
Theorem C08_gate : forall sha1 cf disk ovf s m r, h_hs_done s = false -> (forall a b, m <> Handshake a b) ->
  hstep sha1 cf disk ovf s (EFrame m) r = HEnd s [] false.
Proof. intros. apply gate_closes; auto. Qed.

(* whatever happens, every handshake the client writes carries its info-hash and its own id, and piece data
   is written only in answer to a Request on a connection that has completed a valid handshake *)
Theorem C08_actions : forall sha1 cf disk ovf s ev r,
  forallb (act_ok sha1 cf s ev r) (acts_of (hstep sha1 cf disk ovf s ev r)) = true.
Proof. intros. apply actions_ok. reflexivity. Qed.

Check C08_actions : forall sha1 cf disk ovf s ev r,
  forallb (act_ok sha1 cf s ev r) (acts_of (hstep sha1 cf disk ovf s ev r)) = true.

Print Assumptions C08_wrong_hash.
Print Assumptions C08_wrong_id.
Print Assumptions C08_gate.
Print Assumptions C08_actions.

(* OVER A CONNECTION'S WHOLE LIFE: the gate (h_hs_done, without which every frame but a handshake ends the task and
   no piece data is sent: C08_gate, C08_actions) is opened only by a handshake carrying our torrent's info-hash and, when
   an identity is expected for the address, that identity -- and it then stays open (C20_handshake_stays) *)
Theorem C08_gate_opens_only_by_valid_handshake : forall sha1 cf disk ovf s ev r s' acts,
  hstep sha1 cf disk ovf s ev r = HCont s' acts -> h_hs_done s = false -> h_hs_done s' = true ->
  exists pid, ev = EFrame (Handshake (c_info_hash cf) pid) /\ (forall e, h_peer_id s = Some e -> pid = e).
Proof. exact gate_opens_only_by_valid_handshake. Qed.
Print Assumptions C08_gate_opens_only_by_valid_handshake.
