(* FinderProofs.v — what DeepFinder::find_first returns on every well-formed dictionary document.

   A well-formed document is described by a text tree (tv): atoms (strings, integers) and lists are kept as their
   exact text, dictionaries as the list of (key text, value tree).  The search the scanner performs is stated as a
   four-line function on that tree (tfind_es); the theorem says the scanner computes exactly that, returning the
   exact text of the value it stops at -- for every document, every nesting depth, every amount of trailing data. *)
From Rdest Require Import Base BaseProofs BCodec BGrammar BProofs DeepFinder.
From Coq Require Import ZifyBool ZifyN ZifyNat.
Open Scope N_scope.

(* ---- text trees ---------------------------------------------------------------------------------- *)
Inductive tv :=
| TAtom (a : bytes)                 (* the exact text of a string or an integer *)
| TList (body : bytes)              (* the exact text between 'l' and its 'e' *)
| TDict (es : tes)
with tes :=
| TNil
| TCons (ka : bytes) (v : tv) (rest : tes).   (* key text, value, further entries *)

Scheme tv_mut := Induction for tv Sort Prop
with tes_mut := Induction for tes Sort Prop.

Fixpoint text_v (t : tv) : bytes :=
  match t with
  | TAtom a => a
  | TList body => [ch_l] ++ body ++ [ch_e]
  | TDict es => [ch_d] ++ text_es es ++ [ch_e]
  end
with text_es (es : tes) : bytes :=
  match es with
  | TNil => []
  | TCons ka v r => ka ++ text_v v ++ text_es r
  end.

Definition StrText (a : bytes) : Prop := exists s, WfVal a (BStr s).
Definition AtomText (a : bytes) : Prop := StrText a \/ exists z, WfVal a (BInt z).

Fixpoint wf_v (t : tv) : Prop :=
  match t with
  | TAtom a => AtomText a
  | TList body => exists vs, WfSeq body vs
  | TDict es => wf_es es
  end
with wf_es (es : tes) : Prop :=
  match es with
  | TNil => True
  | TCons ka v r => StrText ka /\ wf_v v /\ wf_es r
  end.

(* the search, as a specification: entries in document order; an entry whose key text is the searched one
   answers with its value's text; otherwise a dictionary value is searched (depth first) before moving on *)
Fixpoint tfind (key : bytes) (t : tv) : option bytes :=
  match t with
  | TDict es => tfind_es key es
  | _ => None
  end
with tfind_es (key : bytes) (es : tes) : option bytes :=
  match es with
  | TNil => None
  | TCons ka v r =>
      if bytes_eqb ka key then Some (text_v v)
      else match tfind key v with
           | Some x => Some x
           | None => tfind_es key r
           end
  end.

(* ---- the scanner re-serialises well-formed text to itself ------------------------------------------ *)

Lemma str_text_inv a : StrText a -> exists d dr s, a = (d :: dr) ++ [ch_colon] ++ s /\ is_digit d = true /\
  forall rest, parse_byte_str lc d (dr ++ ch_colon :: s ++ rest) = Ok (s, a, rest).
Proof.
  intros [s H]. inversion H as [| |ds s' HN Hv Hl| |]; subst.
  destruct (Numeral_cons ds HN) as (d & dr & E & Hd & _). exists d, dr, s. subst ds.
  split; [reflexivity|]. split; [exact Hd|]. intros rest.
  apply (parse_byte_str_complete lc (d :: dr) d dr s rest); [exact HN | reflexivity | exact Hv | exact Hl].
Qed.

Lemma int_text_inv a z : WfVal a (BInt z) -> exists num, a = [ch_i] ++ num ++ [ch_e] /\
  forall rest, parse_int (num ++ ch_e :: rest) = Ok (z, a, rest).
Proof.
  intros H. inversion H as [ds z' HN HS Hz Hi|ds z' HN HS Hnz Hz Hi| | |]; subst.
  - exists ds. split; [reflexivity|]. intros rest. apply parse_int_pos; [exact HN | exact HS | reflexivity | exact Hi].
  - exists ([ch_minus] ++ ds). split; [reflexivity|]. intros rest. rewrite <- app_assoc.
    apply parse_int_neg; [exact HN | exact HS | exact Hnz | reflexivity | exact Hi].
Qed.

Ltac lens := repeat (rewrite ?app_length in *; cbn [length] in * ).
Ltac lnorm H := rewrite ?app_length in H; cbn [length] in H; rewrite ?app_length in H; cbn [length] in H;
                rewrite ?app_length in H; cbn [length] in H.

(* "for every sufficient fuel" form: composes without monotonicity lemmas *)
Definition RB (we : bool) (s out r : bytes) : Prop :=
  forall f, (length s < f)%nat -> raw_body f we s = Ok (out, r).

Lemma RB_end tail : RB true (ch_e :: tail) [] tail.
Proof. intros f Hf. destruct f as [|f]; [lia|]. reflexivity. Qed.

Lemma RB_str we a tail out r2 : StrText a -> RB we tail out r2 -> RB we (a ++ tail) (a ++ out) r2.
Proof.
  intros Ha HT f Hf. destruct (str_text_inv a Ha) as (d & dr & s & E & Hd & Hp).
  destruct f as [|f]; [lia|]. rewrite E. rewrite <- !app_assoc. cbn [app raw_body]. unfold raw_body_step.
  rewrite Hd. unfold raw_byte_str. rewrite Hp. cbn [bind]. rewrite HT.
  - cbn [bind]. rewrite E. rewrite <- !app_assoc. reflexivity.
  - rewrite E in Hf. lnorm Hf. lia.
Qed.

Lemma RB_int we a z tail out r2 : WfVal a (BInt z) -> RB we tail out r2 -> RB we (a ++ tail) (a ++ out) r2.
Proof.
  intros Ha HT f Hf. destruct (int_text_inv a z Ha) as (num & E & Hp).
  destruct f as [|f]; [lia|]. rewrite E. rewrite <- !app_assoc. cbn [app raw_body]. unfold raw_body_step.
  change (is_digit ch_i) with false. change (ch_i =? ch_i) with true. cbv iota.
  unfold raw_int. rewrite Hp. cbn [bind]. rewrite HT.
  - cbn [bind]. rewrite E. rewrite <- !app_assoc. reflexivity.
  - rewrite E in Hf. lnorm Hf. lia.
Qed.

Lemma RB_container b we body tail out r2 : b = ch_l \/ b = ch_d ->
  RB true (body ++ ch_e :: tail) body tail -> RB we tail out r2 ->
  RB we (([b] ++ body ++ [ch_e]) ++ tail) (([b] ++ body ++ [ch_e]) ++ out) r2.
Proof.
  intros Hb HB HT f Hf. destruct f as [|f]; [lia|].
  rewrite <- !app_assoc. cbn [app raw_body]. unfold raw_body_step.
  lnorm Hf.
  assert (E : is_digit b = false /\ (b =? ch_i) = false /\ ((b =? ch_l) || (b =? ch_d)) = true)
    by (destruct Hb as [-> | ->]; repeat split; reflexivity).
  destruct E as (E1 & E2 & E3). rewrite E1, E2, E3.
  rewrite HB by (rewrite app_length; cbn [length]; lia). cbn [bind].
  rewrite HT by lia. cbn [bind]. rewrite <- ?app_assoc. reflexivity.
Qed.

Lemma WfVal_RB : forall a v, WfVal a v ->
  forall we tail out r2, RB we tail out r2 -> RB we (a ++ tail) (a ++ out) r2.
Proof.
  apply (WfVal_mut
           (fun a v _ => forall we tail out r2, RB we tail out r2 -> RB we (a ++ tail) (a ++ out) r2)
           (fun b vs _ => forall we tail out r2, RB we tail out r2 -> RB we (b ++ tail) (b ++ out) r2)).
  - intros ds z HN HS Hz Hi we tail out r2 HT. eapply RB_int; [|exact HT]. constructor; eassumption.
  - intros ds z HN HS Hnz Hz Hi we tail out r2 HT. eapply RB_int; [|exact HT]. apply Wf_neg; eassumption.
  - intros ds s HN Hv Hl we tail out r2 HT. apply RB_str; [|exact HT]. exists s. constructor; assumption.
  - intros body vs Hs IH we tail out r2 HT. apply RB_container; [left; reflexivity | | exact HT].
    specialize (IH true (ch_e :: tail) [] tail (RB_end tail)). rewrite app_nil_r in IH. exact IH.
  - intros body vs ps Hs IH HP we tail out r2 HT. apply RB_container; [right; reflexivity | | exact HT].
    specialize (IH true (ch_e :: tail) [] tail (RB_end tail)). rewrite app_nil_r in IH. exact IH.
  - intros we tail out r2 HT. exact HT.
  - intros a v b vs Hv IHv Hs IHs we tail out r2 HT. rewrite <- !app_assoc. apply IHv, IHs, HT.
Qed.

Lemma WfSeq_RB b vs : WfSeq b vs -> forall tail, RB true (b ++ ch_e :: tail) b tail.
Proof.
  induction 1 as [|a v b vs Hv Hs IH]; intros tail.
  - apply RB_end.
  - rewrite <- app_assoc. pose proof (WfVal_RB a v Hv true (b ++ ch_e :: tail) b tail (IH tail)) as H. exact H.
Qed.

(* dictionaries of a text tree are well-formed sequences too *)
Lemma StrText_nonempty a : StrText a -> a <> [].
Proof. intros H. destruct (str_text_inv a H) as (d & dr & s & E & _). rewrite E. discriminate. Qed.

Lemma wf_RB : forall t, wf_v t -> forall we tail out r2, RB we tail out r2 -> RB we (text_v t ++ tail) (text_v t ++ out) r2.
Proof.
  apply (tv_mut
           (fun t => wf_v t -> forall we tail out r2, RB we tail out r2 -> RB we (text_v t ++ tail) (text_v t ++ out) r2)
           (fun es => wf_es es -> forall we tail out r2, RB we tail out r2 -> RB we (text_es es ++ tail) (text_es es ++ out) r2)).
  - intros a [Hs|[z Hz]] we tail out r2 HT; cbn [text_v]; [apply RB_str | eapply RB_int]; eassumption.
  - intros body [vs Hs] we tail out r2 HT. cbn [text_v]. apply RB_container; [left; reflexivity | | exact HT].
    apply (WfSeq_RB body vs Hs).
  - intros es IH Hes we tail out r2 HT. cbn [text_v]. cbn [wf_v] in Hes.
    apply RB_container; [right; reflexivity | | exact HT].
    specialize (IH Hes true (ch_e :: tail) [] tail (RB_end tail)). rewrite app_nil_r in IH. exact IH.
  - intros _ we tail out r2 HT. exact HT.
  - intros ka v IHv r IHr (Hk & Hv & Hr) we tail out r2 HT. cbn [text_es]. rewrite <- !app_assoc.
    apply RB_str; [exact Hk|]. apply IHv; [exact Hv|]. apply IHr; [exact Hr | exact HT].
Qed.

(* first byte of a value's text and the class it falls in *)
Inductive first_kind := KDigit | KInt | KList | KDict.
Definition kind_of (t : tv) (b : N) : Prop :=
  match t with
  | TAtom _ => (is_digit b = true) \/ (b = ch_i)
  | TList _ => b = ch_l
  | TDict _ => b = ch_d
  end.

Lemma text_v_first t : wf_v t -> exists b r, text_v t = b :: r /\ kind_of t b.
Proof.
  destruct t as [a|body|es]; cbn [wf_v text_v kind_of].
  - intros [Hs|[z Hz]].
    + destruct (str_text_inv a Hs) as (d & dr & s & E & Hd & _). exists d, (dr ++ [ch_colon] ++ s).
      split; [rewrite E; reflexivity | left; exact Hd].
    + destruct (int_text_inv a z Hz) as (num & E & _). exists ch_i, (num ++ [ch_e]). split; [exact E | right; reflexivity].
  - intros _. eexists _, _. split; reflexivity.
  - intros _. eexists _, _. split; reflexivity.
Qed.

(* raw_value on the text of a well-formed value: the text itself, and what follows it *)
Lemma raw_value_text t b r tail F : wf_v t -> text_v t = b :: r -> (length (text_v t ++ tail) < F)%nat ->
  raw_value F b (r ++ tail) = Ok (text_v t, tail).
Proof.
  intros Hw E HF. unfold raw_value. destruct t as [a|body|es]; cbn [wf_v text_v] in *.
  - destruct Hw as [Hs|[z Hz]].
    + destruct (str_text_inv a Hs) as (d & dr & s & Ea & Hd & Hp). rewrite Ea in E. injection E as <- <-.
      rewrite Hd. unfold raw_byte_str. rewrite <- !app_assoc. cbn [app]. rewrite Hp. reflexivity.
    + destruct (int_text_inv a z Hz) as (num & Ea & Hp). rewrite Ea in E. injection E as <- <-.
      change (is_digit ch_i) with false. change (ch_i =? ch_i) with true. cbv iota.
      unfold raw_int. rewrite <- !app_assoc. cbn [app]. rewrite Hp. reflexivity.
  - destruct Hw as [vs Hs]. injection E as <- <-.
    change (is_digit ch_l) with false. change (ch_l =? ch_i) with false. change ((ch_l =? ch_l) || (ch_l =? ch_d)) with true. cbv iota.
    rewrite <- app_assoc. cbn [app]. rewrite (WfSeq_RB body vs Hs tail).
    + reflexivity.
    + lnorm HF. rewrite ?app_length; cbn [length]. lia.
  - injection E as <- <-.
    change (is_digit ch_d) with false. change (ch_d =? ch_i) with false. change ((ch_d =? ch_l) || (ch_d =? ch_d)) with true. cbv iota.
    rewrite <- app_assoc. cbn [app].
    pose proof (wf_RB (TDict es) Hw) as H. cbn [text_v] in H.
    assert (HB : RB true (text_es es ++ ch_e :: tail) (text_es es) tail).
    { assert (G : forall es', wf_es es' -> forall tl, RB true (text_es es' ++ ch_e :: tl) (text_es es') tl).
      { induction es' as [|ka v r IHr]; intros Hes tl.
        - apply RB_end.
        - destruct Hes as (Hk & Hv & Hr). cbn [text_es]. rewrite <- !app_assoc.
          pose proof (RB_str true ka (text_v v ++ text_es r ++ ch_e :: tl) (text_v v ++ text_es r) tl Hk) as H1.
          apply H1.
          pose proof (wf_RB v Hv true (text_es r ++ ch_e :: tl) (text_es r) tl (IHr Hr tl)) as H2. exact H2. }
      apply G. exact Hw. }
    rewrite HB.
    + reflexivity.
    + lnorm HF. rewrite ?app_length; cbn [length]. lia.
Qed.

Lemma wf_text_nonempty t : wf_v t -> text_v t <> [].
Proof. intros H. destruct (text_v_first t H) as (b & r & E & _). rewrite E. discriminate. Qed.

Lemma tfind_nonempty key : forall t, wf_v t -> forall x, tfind key t = Some x -> x <> [].
Proof.
  apply (tv_mut (fun t => wf_v t -> forall x, tfind key t = Some x -> x <> [])
                (fun es => wf_es es -> forall x, tfind_es key es = Some x -> x <> [])).
  - intros a _ x H. discriminate.
  - intros body _ x H. discriminate.
  - intros es IH Hw x H. cbn [tfind] in H. apply IH; assumption.
  - intros _ x H. discriminate.
  - intros ka v IHv r IHr (Hk & Hv & Hr) x H. cbn [tfind_es] in H.
    destruct (bytes_eqb ka key).
    + injection H as <-. apply wf_text_nonempty, Hv.
    + destruct (tfind key v) as [y|] eqn:E; [injection H as <-; apply (IHv Hv y eq_refl) | apply (IHr Hr x H)].
Qed.

(* ---- the traversal ---------------------------------------------------------------------------------- *)
Definition found_res (o : option bytes) (tail : bytes) (r : result (bytes * bytes)) : Prop :=
  match o with
  | Some x => exists r', r = Ok (x, r')
  | None => r = Ok ([], tail)
  end.

Lemma len_zero_iff (x : bytes) : (len x =? 0) = true <-> x = [].
Proof. unfold len. destruct x; cbn; split; intros H; try reflexivity; try discriminate; lia. Qed.

Theorem traverse_spec key :
  forall t, wf_v t ->
    match t with
    | TDict es => forall tail f, (length (text_es es ++ ch_e :: tail) < f)%nat ->
                  found_res (tfind_es key es) tail (traverse_dict f key (text_es es ++ ch_e :: tail))
    | _ => True
    end.
Proof.
  apply (tv_mut
    (fun t => wf_v t ->
       match t with
       | TDict es => forall tail f, (length (text_es es ++ ch_e :: tail) < f)%nat ->
                     found_res (tfind_es key es) tail (traverse_dict f key (text_es es ++ ch_e :: tail))
       | _ => True
       end)
    (fun es => wf_es es -> forall tail f F n,
       (length (text_es es ++ ch_e :: tail) < n)%nat -> (length (text_es es ++ ch_e :: tail) < F)%nat ->
       (length (text_es es ++ ch_e :: tail) <= f)%nat ->
       found_res (tfind_es key es) tail
         (traverse_step (traverse_dict f key) F key n true false (text_es es ++ ch_e :: tail)))).
  - intros a _. exact I.
  - intros body _. exact I.
  - intros es IH Hw tail f Hf. destruct f as [|f]; [lia|]. cbn [traverse_dict].
    apply IH; [exact Hw | lia | lia | lia].
  - (* no entries: the closing 'e' *)
    intros _ tail f F n Hn HF Hf. destruct n as [|n]; [cbn in Hn; lia|]. cbn [text_es app found_res tfind_es].
    reflexivity.
  - intros ka v IHv r IHr (Hk & Hv & Hr) tail f F n Hn HF Hf.
    cbn [text_es] in *. rewrite <- !app_assoc in *.
    destruct (str_text_inv ka Hk) as (d & dr & s & Ek & Hd & Hp).
    set (s2 := text_v v ++ text_es r ++ ch_e :: tail) in *.
    assert (Lk : (length (ka ++ s2) = length ka + length s2)%nat) by apply app_length.
    assert (Lk1 : (1 <= length ka)%nat) by (rewrite Ek; cbn [app length]; lia).
    destruct n as [|n]; [lia|].
    (* the key *)
    assert (Step1 : traverse_step (traverse_dict f key) F key (S n) true false (ka ++ s2)
                    = traverse_step (traverse_dict f key) F key n false (bytes_eqb ka key) s2).
    { rewrite Ek at 1. rewrite <- !app_assoc. cbn [app traverse_step]. rewrite Hd. cbn [orb].
      unfold raw_value. rewrite Hd. unfold raw_byte_str. rewrite Hp. cbn [bind]. reflexivity. }
    rewrite Step1. clear Step1.
    (* the value *)
    destruct (text_v_first v Hv) as (b & rv & Ev & Kb).
    assert (Lv : (length s2 = length (text_v v) + length (text_es r ++ ch_e :: tail))%nat) by (unfold s2; apply app_length).
    assert (Lv1 : (1 <= length (text_v v))%nat) by (rewrite Ev; cbn [length]; lia).
    destruct n as [|n]; [lia|].
    assert (Hbe : (b =? ch_e) = false).
    { destruct v; cbn [kind_of] in Kb.
      - destruct Kb as [Kb| ->]; [|reflexivity]. apply N.eqb_neq. intros ->. discriminate.
      - subst b. reflexivity.
      - subst b. reflexivity. }
    assert (Hraw : raw_value F b (rv ++ text_es r ++ ch_e :: tail) = Ok (text_v v, text_es r ++ ch_e :: tail)).
    { apply raw_value_text; [exact Hv | exact Ev |]. fold s2. lia. }
    unfold s2 at 1. rewrite Ev. cbn [app traverse_step]. rewrite Hbe. rewrite Hraw.
    cbn [tfind_es found_res].
    destruct (bytes_eqb ka key).
    { (* the searched key: its value's text is the answer *) eexists. reflexivity. }
    destruct v as [a|body|es'].
    + (* atom *) cbn [tfind].
      assert (Hd' : (b =? ch_d) = false).
      { cbn [kind_of] in Kb. destruct Kb as [Kb| ->]; [|reflexivity]. apply N.eqb_neq. intros ->. discriminate. }
      rewrite Hd'. apply IHr; [exact Hr | lia | lia | lia].
    + cbn [tfind]. cbn [kind_of] in Kb. subst b. change (ch_l =? ch_d) with false. cbv iota.
      apply IHr; [exact Hr | lia | lia | lia].
    + cbn [kind_of] in Kb. subst b. change (ch_d =? ch_d) with true. cbv iota.
      cbn [text_v] in Ev. injection Ev as <-.
      rewrite <- app_assoc. cbn [app].
      specialize (IHv Hv (text_es r ++ ch_e :: tail) f).
      assert (Hlen : (length (text_es es' ++ ch_e :: text_es r ++ ch_e :: tail) < f)%nat).
      { cbn [text_v] in Lv, Lv1. lnorm Lv. lnorm Lv1. rewrite ?app_length; cbn [length]; rewrite ?app_length; cbn [length]. lia. }
      specialize (IHv Hlen). cbn [tfind].
      destruct (tfind_es key es') as [x|] eqn:Ex; cbn [found_res] in IHv.
      * destruct IHv as [r' ->]. cbn [bind].
        assert (Hx : x <> []) by (apply (tfind_nonempty key (TDict es') Hv x); exact Ex).
        destruct (len x =? 0) eqn:E0; [apply len_zero_iff in E0; contradiction|].
        cbn [negb]. eexists. reflexivity.
      * rewrite IHv. cbn [bind]. change (len [] =? 0) with true. cbn [negb].
        apply IHr; [exact Hr | lia | lia | lia].
Qed.

(* ---- find_first on a document whose first value is a well-formed dictionary -------------------------- *)
Theorem find_first_spec key es trailing : wf_es es ->
  match tfind_es key es with
  | Some x => find_first key (text_v (TDict es) ++ trailing) = Some x
  | None => trailing = [] -> find_first key (text_v (TDict es) ++ trailing) = None
  end.
Proof.
  intros Hw. unfold find_first. cbn [text_v]. rewrite <- !app_assoc. cbn [app length find_top].
  change (is_digit ch_d) with false. change (ch_d =? ch_i) with false. change (ch_d =? ch_l) with false.
  change (ch_d =? ch_d) with true. cbv iota.
  pose proof (traverse_spec key (TDict es) Hw trailing (S (length (text_es es ++ ch_e :: trailing))) (Nat.lt_succ_diag_r _)) as H.
  destruct (tfind_es key es) as [x|] eqn:Ex; cbn [found_res] in H.
  - destruct H as [r' ->]. cbn [bind].
    assert (Hx : x <> []) by (apply (tfind_nonempty key (TDict es) Hw x); exact Ex).
    destruct (len x =? 0) eqn:E0; [apply len_zero_iff in E0; contradiction|]. cbn [negb]. rewrite E0. reflexivity.
  - intros ->. rewrite H. cbn [bind]. change (len [] =? 0) with true. cbn [negb].
    destruct (length (text_es es ++ [ch_e])); reflexivity.
Qed.

(* ---- every well-formed value is the text of a tree ---------------------------------------------------- *)
Lemma WfVal_tree :
  forall a v, WfVal a v -> exists t, wf_v t /\ text_v t = a.
Proof.
  apply (WfVal_mut
    (fun a v _ => exists t, wf_v t /\ text_v t = a)
    (fun b vs _ => (forall ps, Pairs vs ps -> exists es, wf_es es /\ text_es es = b) /\
                   (forall v2 r ps, vs = v2 :: r -> Pairs r ps ->
                      exists t es, wf_v t /\ wf_es es /\ b = text_v t ++ text_es es))).
  - intros ds z HN HS Hz Hi. exists (TAtom ([ch_i] ++ ds ++ [ch_e])). split; [|reflexivity].
    right. exists z. constructor; assumption.
  - intros ds z HN HS Hnz Hz Hi. exists (TAtom ([ch_i; ch_minus] ++ ds ++ [ch_e])). split; [|reflexivity].
    right. exists z. apply Wf_neg; assumption.
  - intros ds s HN Hv Hl. exists (TAtom (ds ++ [ch_colon] ++ s)). split; [|reflexivity].
    left. exists s. constructor; assumption.
  - intros body vs Hs _. exists (TList body). split; [exists vs; exact Hs | reflexivity].
  - intros body vs ps Hs [IH _] HP. destruct (IH ps HP) as (es & Hes & E).
    exists (TDict es). split; [exact Hes | cbn [text_v]; rewrite E; reflexivity].
  - split.
    + intros ps HP. inversion HP; subst. exists TNil. split; [exact I | reflexivity].
    + intros v2 r ps E. discriminate.
  - intros a v b vs Hv [t [Ht Et]] Hs [IH1 IH2]. split.
    + intros ps HP. inversion HP as [|k v2 r ps' HP']; subst.
      destruct (IH2 v2 r ps' eq_refl HP') as (t2 & es & Ht2 & Hes & Eb).
      exists (TCons (text_v t) t2 es). split; [|cbn [text_es]; rewrite Eb; reflexivity].
      split; [exists k; exact Hv | split; assumption].
    + intros v2 r ps E HP. injection E as -> ->.
      destruct (IH1 ps HP) as (es & Hes & Eb). exists t, es. split; [exact Ht|]. split; [exact Hes|].
      rewrite Et, Eb. reflexivity.
Qed.

(* a document the strict grammar accepts as one dictionary is the text of a well-formed entry tree *)
Theorem dict_document_tree doc d : WfSeq doc [BDict d] -> exists es, wf_es es /\ doc = text_v (TDict es).
Proof.
  intros H. inversion H as [|a v b vs Hv Hs]; subst. inversion Hs; subst. rewrite app_nil_r.
  destruct (WfVal_tree a (BDict d) Hv) as (t & Ht & Et).
  assert (Ha : exists body, a = ch_d :: body) by (inversion Hv; subst; eexists; reflexivity).
  destruct Ha as [body Ea].
  destruct t as [x|x|es]; cbn [text_v] in Et.
  - (* an atom cannot start with 'd' *)
    exfalso. cbn [wf_v] in Ht. destruct Ht as [Hs'|[z Hz]].
    + destruct (str_text_inv x Hs') as (d0 & dr & s & E & Hd & _). rewrite E, Ea in Et. cbn [app] in Et. injection Et as -> _. discriminate.
    + destruct (int_text_inv x z Hz) as (num & E & _). rewrite E, Ea in Et. cbn [app] in Et. discriminate.
  - rewrite Ea in Et. cbn [app] in Et. discriminate.
  - exists es. split; [exact Ht | rewrite <- Et; reflexivity].
Qed.

(* ---- outside the nested-key class the answer is the first top-level entry with that key ---------------- *)
Fixpoint shallow (key : bytes) (es : tes) : option bytes :=
  match es with
  | TNil => None
  | TCons ka v r => if bytes_eqb ka key then Some (text_v v) else shallow key r
  end.
(* an entry before the first top-level `key` whose (dictionary) value contains `key` at some depth *)
Fixpoint nested_before (key : bytes) (es : tes) : Prop :=
  match es with
  | TNil => False
  | TCons ka v r => if bytes_eqb ka key then False else tfind key v <> None \/ nested_before key r
  end.

Theorem tfind_shallow key es : ~ nested_before key es -> tfind_es key es = shallow key es.
Proof.
  induction es as [|ka v r IH]; intros H; [reflexivity|]. cbn [tfind_es shallow nested_before] in *.
  destruct (bytes_eqb ka key); [reflexivity|].
  destruct (tfind key v) as [x|] eqn:E; [exfalso; apply H; left; discriminate|].
  apply IH. intros Hn. apply H. right. exact Hn.
Qed.

Theorem find_first_exact_value doc d key x : WfSeq doc [BDict d] ->
  exists es, wf_es es /\ doc = text_v (TDict es) /\
    (~ nested_before key es -> shallow key es = Some x -> find_first key doc = Some x).
Proof.
  intros H. destruct (dict_document_tree doc d H) as (es & Hes & E). exists es. split; [exact Hes|]. split; [exact E|].
  intros Hn Hs. pose proof (find_first_spec key es [] Hes) as F. rewrite app_nil_r in F.
  rewrite (tfind_shallow key es Hn), Hs in F. rewrite E. exact F.
Qed.
