(* LiveProofs.v — one honest seeder suffices (the sequential core of C02's liveness).

   Setting: among the manager's peers there is one, a, which advertises every piece, does not choke us, and answers the requests of
   an assignment in order with the right bytes (PieceProofs.honest_answer), while the others stay silent; the chooser is ANY function whose answers
   satisfy C13's specification (pick_ok).  Then from the first assignment on, every iteration -- the peer answers, the
   task verifies and writes the piece and reports PieceDone, the manager marks it owned, broadcasts it, picks the next
   piece and the task asks for it -- decreases the number of missing pieces by one, and the loop ends with every
   piece owned.  No bound on the number of pieces or on their lengths. *)
From Rdest Require Import Base BaseProofs Consts Wire Manager Handler MgrProofs HandlerProofs PairProofs WfProofs TraceProofs PieceProofs.
From Coq Require Import ZifyBool ZifyN ZifyNat.
Open Scope N_scope.

Definition nh (s : status) : bool := negb (is_have s).
Definition b2n' (b : bool) : N := if b then 1 else 0.

Lemma missing_set : forall (st : list status) (k : nat) (x y : status), nth_error st k = Some x ->
  len (filter nh (set_nth st k y)) + b2n' (nh x) = len (filter nh st) + b2n' (nh y).
Proof.
  induction st as [|s st IH]; intros k x y H; [destruct k; discriminate|].
  destruct k as [|k]; cbn [nth_error set_nth] in *.
  - injection H as ->. cbn [filter]. destruct (nh x), (nh y); cbn [b2n']; rewrite ?len_cons; lia.
  - cbn [filter]. specialize (IH k x y H). destruct (nh s); rewrite ?len_cons; lia.
Qed.

Section Live.
  Variable sha1 : bytes -> bytes.
  Variable cf : hconf.
  Variable disk : bytes -> option bytes.
  Variable ovf : bool.
  Variable a : addr.
  Variable content : N -> bytes.
  (* any chooser meeting C13's specification *)
  Variable choose : mgr -> peer -> option N.
  Hypothesis choose_ok : forall m p, pick_ok m p (choose m p) = true.

  (* static facts: piece lengths are the lengths of the contents, positive, and the contents hash to the torrent's hashes *)
  Definition Good (m : mgr) : Prop :=
    length (m_status m) = length (m_plens m) /\
    forall i l, nthN (m_plens m) i = Some l ->
      l = len (content i) /\ 0 < l /\ bytes_eqb (sha1 (content i)) (hash_of cf i) = true.

  Definition all_pieces (p : peer) (n : nat) : Prop := forall j, (j < n)%nat -> nth j (p_pieces p) false = true.

  (* the situation at the start of an iteration: piece c is assigned to a and has just been asked for *)
  Definition Cur (m : mgr) (s : hst) (c : N) : Prop :=
    Good m /\ h_hs_done s = true /\
    (exists p, pget (m_peers m) a = Some p /\ p_piece_index p = Some c /\ p_choked p = false /\ all_pieces p (length (m_status m))) /\
    nthN (m_status m) c = Some (Reserved 1) /\
    (forall j x, j <> c -> nthN (m_status m) j = Some x -> x = Missing \/ x = Have) /\
    (exists l int r acts, nthN (m_plens m) c = Some l /\ new_piece_request cf int c l = (r, acts) /\ h_rx s = Some r).

  Lemma pget_single p : pget [(a, p)] a = Some p.
  Proof. cbn [pget]. rewrite N.eqb_refl. reflexivity. Qed.

  (* ---- the manager's side of one iteration ---- *)
  Lemma count_have_pos m p j : pget (m_peers m) a = Some p -> nth j (p_pieces p) false = true -> (0 <? count_have m j) = true.
  Proof.
    intros E H. unfold count_have. induction (m_peers m) as [|[k q] ps IH]; cbn [pget] in E; [discriminate|].
    cbn [filter snd]. destruct (k =? a).
    - injection E as ->. rewrite H. rewrite len_cons. lia.
    - specialize (IH E). destruct (nth j (p_pieces q) false); [rewrite len_cons; lia | exact IH].
  Qed.

  Lemma pick_some_is_missing m p c' :
    pget (m_peers m) a = Some p ->
    (forall j x, nthN (m_status m) j = Some x -> x = Missing \/ x = Have) ->
    pick_ok m p (Some c') = true -> nthN (m_status m) c' = Some Missing.
  Proof.
    intros Ep Hst H. unfold pick_ok in H. apply andb_true_iff in H. destruct H as [H _].
    unfold eligible in H. apply andb_true_iff in H. destruct H as [H _]. apply andb_true_iff in H. destruct H as [H _].
    unfold desired in H. unfold nthN. destruct (nth_error (m_status m) (N.to_nat c')) as [x|] eqn:E; [|discriminate].
    destruct (Hst c' x E) as [->| ->]; [reflexivity|]. destruct (end_game m); discriminate.
  Qed.

  Lemma pick_none_all_have m p :
    pget (m_peers m) a = Some p -> all_pieces p (length (m_status m)) ->
    (forall j x, nthN (m_status m) j = Some x -> x = Missing \/ x = Have) ->
    pick_ok m p None = true -> all_have (m_status m) = true.
  Proof.
    intros Ep Hall Hst H. unfold pick_ok in H. rewrite forallb_forall in H.
    unfold all_have. apply forallb_forall. intros x Hx.
    destruct (In_nth_error _ _ Hx) as [j Hj].
    assert (Hjl : (j < length (m_status m))%nat) by (apply nth_error_Some; congruence).
    assert (Hin : In j (indices m)) by (unfold indices; apply in_seq; lia).
    specialize (H j Hin). apply negb_true_iff in H. unfold eligible in H.
    rewrite (count_have_pos m p j Ep (Hall j Hjl)), (Hall j Hjl) in H. rewrite !andb_true_r in H.
    unfold desired in H. rewrite Hj in H.
    assert (Hx' : nthN (m_status m) (N.of_nat j) = Some x) by (unfold nthN; rewrite Nat2N.id; exact Hj).
    destruct (Hst _ _ Hx') as [->| ->]; [|reflexivity]. destruct (end_game m); discriminate.
  Qed.

  (* statuses after the completion and the next pick *)
  Definition next_status (st : list status) (c : N) (pick : option N) : list status :=
    match pick with Some c' => sset (sset st c Have) c' (Reserved 1) | None => sset st c Have end.

  Lemma done_step m p c l' pick :
    pget (m_peers m) a = Some p -> p_piece_index p = Some c -> p_choked p = false ->
    nthN (m_status m) c = Some (Reserved 1) ->
    (forall c', pick = Some c' -> nthN (sset (m_status m) c Have) c' = Some Missing /\ nthN (m_plens m) c' = Some l') ->
    exists m' rep sp,
      mstep m (CPieceDone a) pick = Ok (m', rep, [BHave c], sp) /\
      m_status m' = next_status (m_status m) c pick /\ m_plens m' = m_plens m /\
      match pick with
      | Some c' => rep = RPiece_Req c' l' /\ pget (m_peers m') a = Some (set_assign p (Some c') (p_am_interested p))
      | None => True
      end.
  Proof.
    intros Ep Ei Ec Es Hpick. cbn [mstep]. rewrite Ep, Ei, Es.
    unfold peer_handle_piece. destruct pick as [c'|].
    - destruct (Hpick c' eq_refl) as [Hm Hl].
      change (Peer_no_reserve_when_choked && p_choked p) with (p_choked p). rewrite Ec.
      unfold upd_status. cbn [with_status m_status]. rewrite Hm. cbn [bind incr].
      unfold plen_of. cbn [with_status m_plens]. rewrite Hl. cbn [bind]. unfold out. cbn [bind].
      eexists _, _, _. split; [reflexivity|]. cbn [with_peer with_status m_status m_plens m_peers next_status].
      split; [reflexivity|]. split; [reflexivity|]. split; [reflexivity|].
      apply pget_pset_same.
    - unfold out. cbn [bind]. eexists _, _, _. split; [reflexivity|]. cbn [with_peer with_status m_status m_plens next_status].
      repeat split.
  Qed.

  Lemma still_missing_set m st' : still_missing (with_status m st') = len (filter nh st').
  Proof. reflexivity. Qed.

  (* one iteration: the peer's answers, the task's verification and report, the manager's bookkeeping and next pick *)
  Inductive Iter : mgr * hst * N -> mgr * hst * N -> Prop :=
  | iter_next m s c pre bl_last s1 p pick c' m' rep sp s' acts :
      pget (m_peers m) a = Some p -> pick = choose (with_status m (sset (m_status m) c Have)) p -> pick = Some c' ->
      run sha1 cf disk ovf s (early c (content c) pre) = Some s1 ->
      mstep m (CPieceDone a) pick = Ok (m', rep, [BHave c], sp) ->
      hstep sha1 cf disk ovf s1 (EFrame (honest_answer c (content c) bl_last)) (Some rep) = HCont s' acts ->
      In (AWrite (hash_of cf c) (content c)) acts ->
      Iter (m, s, c) (m', s', c').
  Inductive Last : mgr * hst * N -> mgr -> Prop :=
  | iter_last m s c pre bl_last s1 p m' rep sp :
      pget (m_peers m) a = Some p -> choose (with_status m (sset (m_status m) c Have)) p = None ->
      run sha1 cf disk ovf s (early c (content c) pre) = Some s1 ->
      mstep m (CPieceDone a) None = Ok (m', rep, [BHave c], sp) ->
      In (AWrite (hash_of cf c) (content c))
         (acts_of (hstep sha1 cf disk ovf s1 (EFrame (honest_answer c (content c) bl_last)) (Some rep))) ->
      Last (m, s, c) m'.
  Inductive Download : mgr * hst * N -> mgr -> Prop :=
  | dl_last x m' : Last x m' -> Download x m'
  | dl_step x y m' : Iter x y -> Download y m' -> Download x m'.

  Lemma in_apf_pre s0 pre r x : In x pre -> In x (acts_of (after_piece_finish cf s0 pre r)).
  Proof.
    intros H. unfold after_piece_finish. destruct r as [[| | | | | | | | | | | | | |i len| | |]|]; cbn [acts_of]; try exact H.
    - destruct (new_piece_request cf false i len) as [r0 a0]. cbn [acts_of]. apply in_or_app. left. exact H.
    - apply in_or_app. left. exact H.
  Qed.

  Theorem iteration m s c : Cur m s c ->
    (exists y, Iter (m, s, c) y /\ Cur (fst (fst y)) (snd (fst y)) (snd y) /\ still_missing (fst (fst y)) + 1 = still_missing m) \/
    (exists m', Last (m, s, c) m' /\ all_have (m_status m') = true).
  Proof.
    intros (HG & Hd & (p & Ep & Ei & Ec & Hall) & Hsc & Hoth & (l & int & r & acts0 & Hl & Hnpr & Hrx)).
    destruct HG as [HLen HG].
    destruct (HG c l Hl) as (El & Hpos & Hhash).
    (* the task's side *)
    assert (TK : forall reply, exists s1 pre bl_last, left_blocks (len (content c)) = pre ++ [bl_last] /\
               run sha1 cf disk ovf s (early c (content c) pre) = Some s1 /\
               hstep sha1 cf disk ovf s1 (EFrame (honest_answer c (content c) bl_last)) reply =
                 after_piece_finish cf (set_rx (set_ka s1 0) None) [AWrite (hash_of cf c) (content c); ACmd KPieceDone] reply).
    { intros reply. rewrite El in Hnpr, Hpos.
      exact (assigned_piece_completes sha1 cf disk ovf c (content c) Hhash int s r acts0 reply Hpos Hnpr Hd Hrx). }
    set (m1 := with_status m (sset (m_status m) c Have)).
    assert (Ep1 : pget (m_peers m1) a = Some p) by exact Ep.
    assert (Hst1 : forall j x, nthN (m_status m1) j = Some x -> x = Missing \/ x = Have).
    { intros j x. unfold m1. cbn [with_status m_status]. rewrite nthN_sset. destruct (N.eqb_spec c j) as [->|Nj].
      - rewrite Hsc. intros [= <-]. right. reflexivity.
      - intros Hx. exact (Hoth j x (fun E => Nj (eq_sym E)) Hx). }
    assert (Hlen1 : length (m_status m1) = length (m_status m)) by (unfold m1; cbn [with_status m_status]; apply set_nth_length).
    pose proof (choose_ok m1 p) as Hok.
    destruct (choose m1 p) as [c'|] eqn:Epick.
    - (* another piece is picked *)
      left.
      pose proof (pick_some_is_missing m1 p c' Ep1 Hst1 Hok) as Hm'.
      assert (Hc'lt : (N.to_nat c' < length (m_plens m))%nat).
      { rewrite <- HLen, <- Hlen1. apply nthN_some_iff. eexists. exact Hm'. }
      destruct (proj2 (nthN_some_iff (m_plens m) c') Hc'lt) as [l' Hl'].
      destruct (done_step m p c l' (Some c') Ep Ei Ec Hsc) as (m' & rep & sp & Hstep & Hst' & Hpl' & Hrep & Hpeers').
      { intros c0 [= <-]. split; [exact Hm' | exact Hl']. }
      subst rep.
      destruct (TK (Some (RPiece_Req c' l'))) as (s1 & pre & bl_last & Etil & Hrun & Hlast).
      unfold after_piece_finish in Hlast. destruct (new_piece_request cf false c' l') as [r' a'] eqn:Enpr'.
      exists (m', set_rx (set_rx (set_ka s1 0) None) (Some r'), c'). cbn [fst snd].
      assert (Nc : c' <> c).
      { intros ->. unfold m1 in Hm'. cbn [with_status m_status] in Hm'. rewrite nthN_sset, N.eqb_refl, Hsc in Hm'. discriminate. }
      split; [|split].
      + eapply (iter_next m s c pre bl_last s1 p (Some c') c' m' _ sp); try eassumption; try reflexivity.
        * rewrite <- Epick. reflexivity.
        * apply in_or_app. left. left. reflexivity.
      + (* the next iteration starts in the same situation *)
        unfold Cur. split; [split; [rewrite Hst', Hpl'; cbn [next_status]; unfold sset; rewrite !set_nth_length; exact HLen | rewrite Hpl'; exact HG]|].
        split; [cbn [set_rx h_hs_done]; exact (run_hs_done sha1 cf disk ovf _ _ _ Hrun Hd)|].
        split; [exists (set_assign p (Some c') (p_am_interested p)); split; [exact Hpeers'|]; split; [reflexivity|]; split; [exact Ec|];
                rewrite Hst'; cbn [next_status]; unfold sset; rewrite !set_nth_length; exact Hall|].
        split; [rewrite Hst'; cbn [next_status]; rewrite nthN_sset, N.eqb_refl; unfold m1 in Hm'; cbn [with_status m_status] in Hm'; rewrite Hm'; reflexivity|].
        split.
        * intros j x Nj. rewrite Hst'. cbn [next_status]. rewrite nthN_sset.
          replace (c' =? j) with false by (symmetry; apply N.eqb_neq; congruence). apply Hst1.
        * exists l', false, r', a'. split; [rewrite Hpl'; exact Hl'|]. split; [exact Enpr' | reflexivity].
      + (* one piece fewer is missing *)
        unfold still_missing. rewrite Hst'. cbn [next_status]. unfold sset.
        assert (E1 : nth_error (m_status m) (N.to_nat c) = Some (Reserved 1)) by exact Hsc.
        pose proof (missing_set (m_status m) (N.to_nat c) (Reserved 1) Have E1) as M1. cbn [nh is_have negb b2n'] in M1.
        assert (E2 : nth_error (set_nth (m_status m) (N.to_nat c) Have) (N.to_nat c') = Some Missing) by exact Hm'.
        pose proof (missing_set _ (N.to_nat c') Missing (Reserved 1) E2) as M2. cbn [nh is_have negb b2n'] in M2.
        fold nh. lia.
    - (* nothing left to pick: everything is owned *)
      right.
      destruct (done_step m p c 0 None Ep Ei Ec Hsc) as (m' & rep & sp & Hstep & Hst' & _ & _); [intros c0 H0; discriminate|].
      destruct (TK (Some rep)) as (s1 & pre & bl_last & Etil & Hrun & Hlast).
      exists m'. split.
      + eapply (iter_last m s c pre bl_last s1 p m' rep sp); try eassumption.
        rewrite Hlast. apply in_apf_pre. left. reflexivity.
      + rewrite Hst'. cbn [next_status]. exact (pick_none_all_have m1 p Ep1 (eq_ind_r (fun n => all_pieces p n) Hall Hlen1) Hst1 Hok).
  Qed.

  (* the whole download: from any such situation the loop runs to the end and everything is owned *)
  Theorem seeder_download_completes : forall n m s c, still_missing m = N.of_nat n -> Cur m s c ->
    exists m', Download (m, s, c) m' /\ all_have (m_status m') = true.
  Proof.
    induction n as [|n IH]; intros m s c Hn HC.
    - (* no piece can be missing while one is Reserved: impossible measure *)
      exfalso. destruct HC as (_ & _ & _ & Hsc & _).
      unfold still_missing in Hn. assert (E1 : nth_error (m_status m) (N.to_nat c) = Some (Reserved 1)) by exact Hsc.
      pose proof (missing_set (m_status m) (N.to_nat c) (Reserved 1) Have E1) as M1. cbn [nh is_have negb b2n'] in M1. fold nh in Hn. lia.
    - destruct (iteration m s c HC) as [([[m2 s2] c2] & Hit & HC2 & Hm)|(m' & HL & Hall)].
      + cbn [fst snd] in HC2, Hm. destruct (IH m2 s2 c2) as (m' & HD & Hall); [lia | exact HC2|].
        exists m'. split; [eapply dl_step; eassumption | exact Hall].
      + exists m'. split; [apply dl_last; exact HL | exact Hall].
  Qed.
End Live.

(* ---- from the connection to the first assignment -------------------------------------------------------------- *)
Section Start.
  Variable sha1 : bytes -> bytes.
  Variable cf : hconf.
  Variable disk : bytes -> option bytes.
  Variable ovf : bool.
  Variable a : addr.
  Variable content : N -> bytes.
  Variable choose : mgr -> peer -> option N.
  Hypothesis choose_ok : forall m p, pick_ok m p (choose m p) = true.

  (* an incoming connection from a seeder: its handshake, its bitfield with every piece, and -- after our Interested --
     its unchoke; the manager's answers are its actual answers with the chooser's picks.  If something is missing,
     the three exchanges end in the situation Cur (a piece assigned and asked for). *)
  Theorem connection_reaches_first_assignment m0 p0 s0 pid bs :
    Good sha1 cf content m0 ->
    (forall j x, nthN (m_status m0) j = Some x -> x = Missing \/ x = Have) -> all_have (m_status m0) = false ->
    pget (m_peers m0) a = Some p0 -> p_piece_index p0 = None -> length (p_pieces p0) = length (m_status m0) ->
    to_vec bs (pieces_n m0) = Some (repeat true (length (m_status m0))) -> bitfield_validate bs (c_pieces_num cf) = true ->
    h_peer_id s0 = None -> h_hs_done s0 = false -> h_choked s0 = true -> h_rx s0 = None ->
    exists m1 r1 bc1 sp1 s1 a1 m2 r2 bc2 sp2 s2 a2 m3 r3 bc3 sp3 s3 a3 c,
      (* handshake / Init *)
      mstep m0 (CInit a pid) None = Ok (m1, r1, bc1, sp1) /\
      hstep sha1 cf disk ovf s0 (EFrame (Handshake (c_info_hash cf) pid)) (Some r1) = HCont s1 a1 /\
      (* bitfield *)
      (exists pk2, mstep m1 (CBitfield a bs) pk2 = Ok (m2, r2, bc2, sp2)) /\
      hstep sha1 cf disk ovf s1 (EFrame (Bitfield bs)) (Some r2) = HCont s2 a2 /\
      (* unchoke: the chooser's pick is assigned *)
      (exists p2, pget (m_peers m2) a = Some p2 /\ mstep m2 (CUnchoke a) (choose m2 p2) = Ok (m3, r3, bc3, sp3)) /\
      hstep sha1 cf disk ovf s2 (EFrame Unchoke) (Some r3) = HCont s3 a3 /\
      Cur sha1 cf a content m3 s3 c /\ still_missing m3 = still_missing m0.
  Proof.
    intros HG Hst Hnot Ep Ei Hlp Hvec Hval Hpid Hd Hck Hrx.
    destruct HG as [HLen HGl].
    (* 1. handshake *)
    assert (S1 : mstep m0 (CInit a pid) None = Ok (with_peer m0 a (set_id p0 pid), RBitfield (map is_have (m_status m0)), [], [])).
    { cbn [mstep]. rewrite Ep. reflexivity. }
    set (m1 := with_peer m0 a (set_id p0 pid)).
    set (s1 := set_hs_done (set_pid (set_ka s0 0) (Some pid))).
    assert (T1 : hstep sha1 cf disk ovf s0 (EFrame (Handshake (c_info_hash cf) pid)) (Some (RBitfield (map is_have (m_status m0)))) =
                 HCont s1 ([ASend (Handshake (c_info_hash cf) (c_own_id cf)); ACmd (KInit pid)] ++ [ASend (Bitfield (from_vec (map is_have (m_status m0))))])).
    { cbn [hstep]. unfold handle_frame. rewrite Hd. cbn [negb andb]. rewrite andb_false_r. cbv iota.
      rewrite bytes_eqb_refl. cbn [negb]. cbn [set_ka h_peer_id]. rewrite Hpid. reflexivity. }
    (* 2. bitfield *)
    set (p1 := set_id p0 pid).
    assert (Ep1 : pget (m_peers m1) a = Some p1) by (unfold m1; cbn [with_peer m_peers]; apply pget_pset_same).
    set (n := length (m_status m0)) in *.
    set (v := repeat true n).
    assert (Hlv : (len v =? len (p_pieces p1)) = true).
    { unfold v, len, p1. cbn [set_id p_pieces]. rewrite repeat_length, Hlp. apply N.eqb_refl. }
    set (m1b := with_peer m1 a (set_pieces p1 v)).
    set (pk2 := choose m1b (set_pieces p1 v)).
    assert (exists m2 r2, mstep m1 (CBitfield a bs) pk2 = Ok (m2, r2, [], []) /\
              m_status m2 = m_status m0 /\ m_plens m2 = m_plens m0 /\
              (exists u am, r2 = RBitfieldState u am) /\
              exists p2, pget (m_peers m2) a = Some p2 /\ p_pieces p2 = v /\ p_piece_index p2 = None /\ p_choked p2 = p_choked p0) as S2.
    { cbn [mstep]. rewrite Ep1. change (pieces_n m1) with (pieces_n m0). rewrite Hvec. fold v. rewrite Hlv. cbn [negb]. unfold out.
      eexists _, _. split; [reflexivity|]. cbn [with_peer m_status m_plens m_peers]. split; [reflexivity|]. split; [reflexivity|].
      split; [eexists _, _; reflexivity|]. eexists. split; [apply pget_pset_same|]. cbn [set_am set_pieces set_id p_pieces p_piece_index p_choked].
      repeat split; assumption. }
    destruct S2 as (m2 & r2 & S2 & Est2 & Epl2 & (u & am & ->) & p2 & Ep2 & Epc2 & Ei2 & Ec2).
    assert (T2 : exists a2, hstep sha1 cf disk ovf s1 (EFrame (Bitfield bs)) (Some (RBitfieldState u am)) = HCont (set_ka s1 0) a2).
    { cbn [hstep]. unfold handle_frame. unfold s1 at 1. cbn [set_hs_done h_hs_done negb andb]. rewrite andb_false_r. cbv iota.
      rewrite Hval. cbn [negb]. eexists. reflexivity. }
    destruct T2 as [a2 T2].
    set (s2 := set_ka s1 0) in *.
    (* 3. unchoke: the chooser must pick something, and it picks a Missing piece *)
    assert (Hst2 : forall j x, nthN (m_status m2) j = Some x -> x = Missing \/ x = Have) by (rewrite Est2; exact Hst).
    assert (Hall2 : all_pieces p2 (length (m_status m2))).
    { intros j Hj. rewrite Epc2. unfold v. rewrite Est2 in Hj. fold n in Hj. apply nth_error_nth. apply nth_error_repeat. exact Hj. }
    pose proof (choose_ok m2 p2) as Hok.
    destruct (choose m2 p2) as [c|] eqn:Epick.
    2:{ exfalso. pose proof (pick_none_all_have sha1 disk a content choose choose_ok m2 p2 Ep2 Hall2 Hst2 Hok) as Hah. rewrite Est2 in Hah. congruence. }
    pose proof (pick_some_is_missing a m2 p2 c Ep2 Hst2 Hok) as Hmc.
    assert (Hclt : (N.to_nat c < length (m_plens m2))%nat).
    { rewrite Epl2, <- HLen. unfold n. rewrite <- Est2. apply nthN_some_iff. eexists. exact Hmc. }
    destruct (proj2 (nthN_some_iff (m_plens m2) c) Hclt) as [l Hl].
    assert (S3 : exists m3 r3, mstep m2 (CUnchoke a) (Some c) = Ok (m3, r3, [], []) /\
               m_status m3 = sset (m_status m2) c (Reserved 1) /\ m_plens m3 = m_plens m2 /\
               (r3 = RUnchoke_Req c l \/ r3 = RUnchoke_IntReq c l) /\
               pget (m_peers m3) a = Some (set_assign (set_choked p2 false) (Some c) true)).
    { cbn [mstep]. rewrite Ep2. unfold upd_status. rewrite Hmc. cbn [bind incr]. unfold plen_of. rewrite Hl. cbn [bind]. unfold out.
      eexists _, _. split; [reflexivity|]. cbn [with_peer with_status m_status m_plens m_peers].
      split; [reflexivity|]. split; [reflexivity|]. split; [destruct (p_am_interested p2); [left | right]; reflexivity | apply pget_pset_same]. }
    destruct S3 as (m3 & r3 & S3 & Est3 & Epl3 & Hr3 & Ep3).
    assert (Hck2 : h_choked s2 = true) by exact Hck.
    assert (T3 : exists int r a3, new_piece_request cf int c l = (r, a3) /\
               exists acts, hstep sha1 cf disk ovf s2 (EFrame Unchoke) (Some r3) = HCont (set_rx (set_buff (set_hchoked (set_ka s2 0) false) []) (Some r)) acts).
    { cbn [hstep]. unfold handle_frame. change (h_hs_done s2) with true. cbn [negb andb]. rewrite andb_false_r. cbv iota.
      change (h_choked (set_ka s2 0)) with (h_choked s2). rewrite Hck2. cbn [negb andb]. rewrite andb_false_r. cbv iota.
      destruct Hr3 as [-> | ->].
      - destruct (new_piece_request cf false c l) as [r a3] eqn:En. exists false, r, a3. split; [exact En|]. eexists. reflexivity.
      - destruct (new_piece_request cf true c l) as [r a3] eqn:En. exists true, r, a3. split; [exact En|]. eexists. reflexivity. }
    destruct T3 as (int & r & a3 & En & acts3 & T3).
    exists m1, (RBitfield (map is_have (m_status m0))), [], [], s1,
           ([ASend (Handshake (c_info_hash cf) (c_own_id cf)); ACmd (KInit pid)] ++ [ASend (Bitfield (from_vec (map is_have (m_status m0))))]),
           m2, (RBitfieldState u am), [], [], s2, a2,
           m3, r3, [], [], (set_rx (set_buff (set_hchoked (set_ka s2 0) false) []) (Some r)), acts3, c.
    split; [exact S1|]. split; [exact T1|]. split; [exists pk2; exact S2|]. split; [exact T2|].
    split; [exists p2; split; [exact Ep2 | rewrite Epick; exact S3]|]. split; [exact T3|]. split.
    - unfold Cur. split; [split; [rewrite Est3, Epl3, Epl2; unfold sset; rewrite set_nth_length, Est2; exact HLen | rewrite Epl3, Epl2; exact HGl]|].
      split; [reflexivity|].
      split; [eexists; split; [exact Ep3|]; split; [reflexivity|]; split; [reflexivity|];
              rewrite Est3; unfold sset; rewrite set_nth_length; cbn [set_assign set_choked p_pieces]; exact Hall2|].
      split; [rewrite Est3, nthN_sset, N.eqb_refl, Hmc; reflexivity|].
      split.
      + intros j x Nj. rewrite Est3, nthN_sset. replace (c =? j) with false by (symmetry; apply N.eqb_neq; congruence). apply Hst2.
      + exists l, int, r, a3. split; [rewrite Epl3; exact Hl|]. split; [exact En | reflexivity].
    - unfold still_missing. rewrite Est3, Est2. unfold sset.
      assert (E2 : nth_error (m_status m0) (N.to_nat c) = Some Missing) by (rewrite <- Est2; exact Hmc).
      pose proof (missing_set (m_status m0) (N.to_nat c) Missing (Reserved 1) E2) as M. cbn [nh is_have negb b2n'] in M. fold nh. lia.
  Qed.
End Start.

(* from the connection to the complete download *)
Theorem seeder_from_connection sha1 cf disk ovf a content choose
  (choose_ok : forall m p, pick_ok m p (choose m p) = true) m0 p0 s0 (pid bs : bytes) :
  Good sha1 cf content m0 ->
  (forall j x, nthN (m_status m0) j = Some x -> x = Missing \/ x = Have) -> all_have (m_status m0) = false ->
  pget (m_peers m0) a = Some p0 -> p_piece_index p0 = None -> length (p_pieces p0) = length (m_status m0) ->
  to_vec bs (pieces_n m0) = Some (repeat true (length (m_status m0))) -> bitfield_validate bs (c_pieces_num cf) = true ->
  h_peer_id s0 = None -> h_hs_done s0 = false -> h_choked s0 = true -> h_rx s0 = None ->
  exists m3 s3 c m', Cur sha1 cf a content m3 s3 c /\ still_missing m3 = still_missing m0 /\
                     Download sha1 cf disk ovf a content choose (m3, s3, c) m' /\ all_have (m_status m') = true.
Proof.
  intros HG Hst Hnot Ep Ei Hlp Hvec Hval Hpid Hd Hck Hrx.
  destruct (connection_reaches_first_assignment sha1 cf disk ovf a content choose choose_ok m0 p0 s0 pid bs
              HG Hst Hnot Ep Ei Hlp Hvec Hval Hpid Hd Hck Hrx)
    as (m1 & r1 & bc1 & sp1 & s1 & a1 & m2 & r2 & bc2 & sp2 & s2 & a2 & m3 & r3 & bc3 & sp3 & s3 & a3 & c & _ & _ & _ & _ & _ & _ & HC & Hm).
  destruct (seeder_download_completes sha1 cf disk ovf a content choose choose_ok (N.to_nat (still_missing m3)) m3 s3 c) as (m' & HD & Hall);
    [rewrite N2Nat.id; reflexivity | exact HC|].
  exists m3, s3, c, m'. split; [exact HC|]. split; [exact Hm|]. split; [exact HD | exact Hall].
Qed.

(* with the code's own chooser (rarest first over the desired pieces, any fixed tie order): no hypothesis left on it *)
Corollary seeder_download_completes_rarest sha1 cf disk ovf a content n m s c :
  still_missing m = N.of_nat n -> Cur sha1 cf a content m s c ->
  exists m', Download sha1 cf disk ovf a content (fun m0 p0 => choose_with (rarest_list m0) p0) (m, s, c) m' /\
             all_have (m_status m') = true.
Proof.
  apply seeder_download_completes. intros m0 p0. apply choose_with_ok. apply Permutation.Permutation_refl.
Qed.

(* non-vacuity: a two-piece torrent, piece 0 just assigned *)
Definition lx_cf : hconf := mkconf [] [] 2 [[10]; [11]].
Definition lx_content (i : N) : bytes := [10 + i].
Definition lx_peer : peer := mkpeer (Some []) [true; true] (Some 0) true true false false false None None.
Definition lx_m : mgr := mkmgr [Reserved 1; Missing] [(1, lx_peer)] [] 0 false [1; 1].
Definition lx_s : hst :=
  mkh (Some []) None (Some (fst (new_piece_request lx_cf false 0 1))) false true 0 [] true.

Example live_nonvacuous : Cur (fun x => x) lx_cf 1 lx_content lx_m lx_s 0 /\ still_missing lx_m = N.of_nat 2.
Proof.
  split; [|reflexivity]. unfold Cur. split.
  - split; [reflexivity|]. intros i l H.
    assert (Hi : (N.to_nat i < 2)%nat) by (apply (nthN_some_iff (m_plens lx_m) i); eexists; exact H).
    assert (Ei : i = 0 \/ i = 1) by lia. destruct Ei as [-> | ->]; cbn in H; injection H as <-; repeat split; reflexivity.
  - split; [reflexivity|]. split.
    + exists lx_peer. split; [reflexivity|]. repeat split. intros j Hj. cbn in Hj. destruct j as [|[|j]]; [reflexivity | reflexivity | lia].
    + split; [reflexivity|]. split.
      * intros j x Hj H.
        assert (Hi : (N.to_nat j < 2)%nat) by (apply (nthN_some_iff (m_status lx_m) j); eexists; exact H).
        assert (Ej : j = 1) by lia. subst j. cbn in H. injection H as <-. left. reflexivity.
      * eexists 1, false, _, _. split; [reflexivity|]. split; [apply surjective_pairing | reflexivity].
Qed.
