(* TrackerResp.v — executable mirror of src/tracker_resp.rs. *)
From Rdest Require Export Base BCodec Metainfo.
Open Scope N_scope.

Definition k_failure : bytes := [102;97;105;108;117;114;101;32;114;101;97;115;111;110].  (* "failure reason" *)
Definition k_interval : bytes := [105;110;116;101;114;118;97;108].
Definition k_peers : bytes := [112;101;101;114;115].
Definition k_ip : bytes := [105;112].
Definition k_peer_id : bytes := [112;101;101;114;32;105;100].
Definition k_port : bytes := [112;111;114;116].

Record peer_addr := mkpeer { p_ip : bytes; p_id : bytes; p_port : N }.
Record tracker_resp := mkresp { r_interval : N; r_peers : list peer_addr }.

(* find_failure_reason: Some only for a string; TrackerResp_lossy_reason says
   whether an invalid-UTF-8 reason still counts (the repaired code: yes) *)
Definition has_failure (d : dict) : bool :=
  match map_get k_failure d with
  | Some (BStr s) => TrackerResp_lossy_reason || utf8_valid s
  | _ => false
  end.

Definition peer_of (v : bvalue) : option peer_addr :=
  match v with
  | BDict e =>
      match map_get k_ip e, map_get k_peer_id e, map_get k_port e with
      | Some (BStr ip), Some (BStr id), Some (BInt port) =>
          match u64_of port with
          | Some p => if utf8_valid ip && (len id =? HASH_SIZE) then Some (mkpeer ip id p) else None
          | None => None
          end
      | _, _, _ => None
      end
  | _ => None
  end.

Definition parse_resp (d : dict) : option tracker_resp :=
  if has_failure d then None else
  match map_get k_interval d, map_get k_peers d with
  | Some (BInt i), Some (BList l) =>
      match u64_of i with
      | Some iv => Some (mkresp iv (filter_map peer_of l))
      | None => None
      end
  | _, _ => None
  end.

Fixpoint first_resp (vs : list bvalue) : option tracker_resp :=
  match vs with
  | [] => None
  | BDict d :: r => match parse_resp d with Some t => Some t | None => first_resp r end
  | _ :: r => first_resp r
  end.

Definition tracker_resp_of (body : bytes) : result tracker_resp :=
  match decode body with
  | Ok vs => match first_resp vs with Some t => Ok t | None => Err end
  | Err => Err
  | Panic => Panic
  | OutOfFuel => OutOfFuel
  end.

(* TrackerResp::peers(): "ip:port" and the id *)
Definition peers_out (t : tracker_resp) : list (bytes * bytes) :=
  map (fun p => (p_ip p ++ [58] ++ dec_N (p_port p), p_id p)) (r_peers t).
