"""C12 — no missing piece is ever withheld by a stale reservation."""
import itertools
from mgrbase import MgrBase, protocol_scenario


class C12(MgrBase):
    id = "C12"
    proof_target = "Props/C12.vo"
    theorems = ["C12_have_absorbing", "C12_asked_advertised_lacked", "C12_invariant", "C12_invariant_step", "C12_released", "C12_task_guarantee", "C12_flags_agree", "C12_no_manager_panic", "C12_wf_preserved", "C12_task_commands_sendable", "C12_manager_handles", "C12_task_commands_deliverable", "C12_rotation_handles", "C12_reachable_wf", "C12_reachable_task_command_handled", "C12_listener_repaired", "C12_listener_keeps_invariant", "C12_listener_pinned_refuted"]
    coq_header = ("From Rdest Require Import Base Consts Wire Manager Corr.Mgr.\nOpen Scope N_scope.\n"
                  "Definition codes := codes12.\n")
    rule = ("event histories over 1-3 peers x 2-12 pieces that the connection tasks can produce (choke, unchoke, interested, "
            "have, bitfield, request, piece done / cancelled, disconnect, new peers), weighted towards repeated and "
            "out-of-order events, executed one command at a time on the real Session; after every command the whole "
            "manager state is compared with the model applied to the previous observed state and the reservation "
            "invariant is evaluated on the observed state. Plus raw (unconstrained) histories for model/impl agreement. "
            "Non-trivial: histories with at least one reservation; distinct lines.")
    statement_status = "see Props/C12.v"

    def corpus(self):
        P = lambda ops, kind="corpus": self.mk("prod", 3, 4, 10, ops, kind)
        return [P(["add 1", "init 1", "bf 1 111", "unchoke 1", "unchoke 1", "unchoke 1", "choke 1"]),
                P(["add 1", "add 2", "init 1", "init 2", "bf 1 111", "bf 2 100", "unchoke 1", "choke 1", "done 1"]),
                P(["add 1", "add 2", "bf 1 100", "bf 2 100", "unchoke 1", "choke 1", "unchoke 2", "unchoke 1", "done 1"]),
                P(["add 1", "bf 1 110", "unchoke 1", "done 1", "done 1", "kill 1"]),
                # a second connection from the address of a peer that holds an assignment (fixed finding
                # listener-replaces-connected-peer): the entry, the reservation and the old task's reports stay consistent
                P(["accept 101", "init 101", "bf 101 110", "unchoke 101", "accept 101", "done 101", "accept 101", "kill 101"], "corpus-reconnect"),
                # the listener turns connections away while four connected peers are of no interest to us
                P(["accept 101", "accept 102", "accept 103", "accept 104", "accept 105", "init 105", "kill 101", "accept 105", "init 105"], "corpus-admission"),
                self.mk("raw", 3, 4, 10, ["add 1", "done 1"], "corpus-raw"),
                self.mk("raw", 3, 4, 10, ["unchoke 7"], "corpus-raw"),
                self.mk("raw", 3, 4, 10, ["add 1", "have 1 9"], "corpus-raw")]

    def gen(self, rng, tier):
        n_prod = {"quick": 260, "thorough": 6000, "search": 1500}.get(tier, 260)
        n_raw = {"quick": 60, "thorough": 1000, "search": 100}.get(tier, 60)
        cases = []
        for _ in range(n_prod):
            n = rng.choice([2, 3, 3, 4, 6, 11, 12])
            pl = rng.choice([4, 16384])
            total = pl * n - rng.randrange(0, pl)
            ops = protocol_scenario(rng, rng.choice([1, 2, 2, 3]), n, rng.choice([6, 10, 16, 24]))
            cases.append(self.mk("prod", n, pl, total, ops, "producible"))
        for _ in range(n_raw):
            n = rng.choice([0, 1, 3, 9])
            pl = 4
            total = max(0, pl * n - rng.randrange(0, pl)) if n else 0
            ops = protocol_scenario(rng, rng.choice([1, 2]), max(n, 1), 10)
            # sprinkle events no task would send
            for _ in range(3):
                ops.insert(rng.randrange(len(ops) + 1), rng.choice(["done 1", "cancel 1", "unchoke 9", "nint 9", "choke 9",
                                                                    "have 1 %d" % (n + 2), "bfraw 1 ffff", "bfraw 1 -", "kill 9"]))
            c = self.mk("raw", n, pl, total, ops, "raw")
            c.nontrivial = False
            cases.append(c)
        return cases


PROP = C12()
