//! The composed system in one process (C01, C02): the real Session (driven through its command channel),
//! real PeerHandler tasks over in-memory pipes, scripted remote peers, the real Extractor at the end;
//! tokio's paused clock.
//!
//! case line:  sys <seed> <piece length> <file lengths a,b,..> ; peer <have bits> <behaviour> [<arg>] ; peer ...
//!   behaviour: honest | havelater <ms> | havewait <ms> | slow | corrupt <every k-th block> | dropafter <n messages> | garbage <after n> | lateunchoke
//! output: one line of key=value fields (see the end of run_case)
use crate::hnd::sha1;
use crate::util::*;
use rdest::verif::*;
use rdest::{Metainfo, Session};
use std::collections::HashMap;
use std::sync::{Arc, Mutex};
use tokio::io::{AsyncReadExt, AsyncWriteExt, DuplexStream};
use tokio::time::Duration;

struct Lcg(u64);
impl Lcg {
    fn next(&mut self, n: u64) -> u64 {
        self.0 = (self.0 * 1103515245 + 12345) % 2147483648;
        (self.0 >> 8) % n.max(1)
    }
}

fn hexname(h: &[u8]) -> String {
    h.iter().map(|b| format!("{:02X}", b)).collect::<String>() + ".piece"
}

#[derive(Default)]
struct Shared {
    /// a Have / Bitfield bit was received for a piece whose verified file did not exist at that moment
    early_adverts: usize,
    adverts: usize,
    blocks_served: usize,
    protocol_oddities: usize,
    /// 'leech' remotes: blocks received that are exactly the requested range of the original content / anything else
    /// (unrequested, other bytes, a piece whose verified file does not exist) / received after a Choke and before the next Unchoke
    up_ok: usize,
    up_bad: usize,
    up_choked: usize,
}

async fn write_chunked(w: &mut DuplexStream, data: &[u8], rng: &mut Lcg, slow: bool) -> bool {
    let mut i = 0;
    while i < data.len() {
        let k = if rng.next(3) == 0 { data.len() - i } else { 1 + rng.next((data.len() - i) as u64) as usize };
        if w.write_all(&data[i..i + k]).await.is_err() {
            return false;
        }
        i += k;
        if slow || rng.next(4) == 0 {
            tokio::time::sleep(Duration::from_millis(1 + rng.next(if slow { 3000 } else { 20 }))).await;
        } else {
            tokio::task::yield_now().await;
        }
    }
    true
}

fn frame(id: u8, payload: &[u8]) -> Vec<u8> {
    let mut v = ((payload.len() + 1) as u32).to_be_bytes().to_vec();
    v.push(id);
    v.extend_from_slice(payload);
    v
}

#[allow(clippy::too_many_arguments)]
async fn remote_peer(
    mut io: DuplexStream,
    have: Vec<bool>,
    behaviour: String,
    arg: usize,
    pieces: Arc<Vec<Vec<u8>>>,
    hashes: Arc<Vec<[u8; 20]>>,
    shared: Arc<Mutex<Shared>>,
    seed: u64,
    info_hash: [u8; 20],
) {
    let mut rng = Lcg(seed);
    let slow = behaviour == "slow";
    let n = have.len();
    // greet
    let mut hs = vec![19u8];
    hs.extend_from_slice(b"BitTorrent protocol");
    hs.extend_from_slice(&[0u8; 8]);
    hs.extend_from_slice(&info_hash);
    hs.extend_from_slice(b"RRRRRRRRRRRRRRRRRRRR");
    if !write_chunked(&mut io, &hs, &mut rng, slow).await {
        return;
    }
    let mut bits = vec![0u8; (n + 7) / 8];
    // 'havelater <ms>': an honest peer that opens with an empty bitfield and announces its pieces by Have after <ms>
    // 'havewait <ms>': the same, but unchokes only when asked (Interested); 'havelater' also unchokes unasked 30 s later
    let mut announced = behaviour != "havelater" && behaviour != "havewait";
    let spontaneous = behaviour == "havelater";
    let have_at = tokio::time::Instant::now() + Duration::from_millis(if announced { 0 } else { arg as u64 });
    for (i, h) in have.iter().enumerate() {
        if *h && announced {
            bits[i / 8] |= 128 >> (i % 8);
        }
    }
    if !write_chunked(&mut io, &frame(5, &bits), &mut rng, slow).await {
        return;
    }
    let mut buf: Vec<u8> = vec![];
    let mut got_hs = false;
    let mut msgs = 0usize;
    let mut blocks = 0usize;
    let mut unchoked_them = false;
    let unchoke_at = have_at + Duration::from_secs(30);
    let mut held: Option<(usize, usize, usize)> = None;
    // 'leech <k>': owns nothing, declares interest, and requests every piece the client advertises, block by block, as soon
    // as the client unchokes it; checks every block it receives against the original content. With k > 0 it also asks
    // once for a piece the client has not advertised (must stay unanswered)
    let leech = behaviour == "leech";
    let mut they_unchoked = false;
    let mut advertised = vec![false; n];
    let mut wanted: Vec<usize> = vec![];
    let mut outstanding: Vec<(usize, usize, usize)> = vec![];
    let mut asked_unowned = false;
    // 'chokelast': an honest seeder that chokes the client just before it sends the final block of each piece (the block
    // is still delivered: it was in flight) and unchokes again 200 ms later
    let chokelast = behaviour == "chokelast";
    let mut unchoke_again_at: Option<tokio::time::Instant> = None;
    // (the client buffers its Have messages for a peer that chokes it, so the leech unchokes the client as well)
    if leech && !(write_chunked(&mut io, &frame(2, &[]), &mut rng, slow).await && write_chunked(&mut io, &frame(1, &[]), &mut rng, slow).await) {
        return;
    }
    // 'holdleave <ms>': takes requests, never answers, leaves after <ms>
    let leave_at = tokio::time::Instant::now() + if behaviour == "holdleave" { Duration::from_millis(arg as u64) } else { Duration::from_secs(100_000_000) };
    let mut tmp = vec![0u8; 1 << 16];
    loop {
        // parse what we have
        loop {
            if !got_hs {
                if buf.len() >= 68 {
                    buf.drain(..68);
                    got_hs = true;
                    continue;
                }
                break;
            }
            if buf.len() < 4 {
                break;
            }
            let len = u32::from_be_bytes([buf[0], buf[1], buf[2], buf[3]]) as usize;
            if buf.len() < 4 + len {
                break;
            }
            let msg: Vec<u8> = buf.drain(..4 + len).collect();
            if len == 0 {
                continue;
            }
            msgs += 1;
            let id = msg[4];
            let check_advert = |i: usize| {
                let mut sh = shared.lock().unwrap();
                sh.adverts += 1;
                let ok = i < n && std::fs::read(hexname(&hashes[i])).map(|d| sha1(&d) == hashes[i]).unwrap_or(false);
                if !ok {
                    sh.early_adverts += 1;
                }
            };
            match id {
                2 => {
                    // interested -> unchoke (late for 'lateunchoke')
                    if behaviour == "lateunchoke" {
                        tokio::time::sleep(Duration::from_secs(200)).await;
                    }
                    unchoked_them = true;
                    if !write_chunked(&mut io, &frame(1, &[]), &mut rng, slow).await {
                        return;
                    }
                }
                0 if leech => they_unchoked = false,
                1 if leech => they_unchoked = true,
                4 => {
                    let i = u32::from_be_bytes([msg[5], msg[6], msg[7], msg[8]]) as usize;
                    check_advert(i);
                    if leech && i < n && !advertised[i] {
                        advertised[i] = true;
                        wanted.push(i);
                    }
                }
                5 => {
                    for i in 0..n {
                        if msg[5 + i / 8] & (128 >> (i % 8)) != 0 {
                            check_advert(i);
                            if leech && !advertised[i] {
                                advertised[i] = true;
                                wanted.push(i);
                            }
                        }
                    }
                }
                7 if leech => {
                    let mut sh = shared.lock().unwrap();
                    if msg.len() < 13 {
                        sh.up_bad += 1;
                    } else {
                        let i = u32::from_be_bytes([msg[5], msg[6], msg[7], msg[8]]) as usize;
                        let b = u32::from_be_bytes([msg[9], msg[10], msg[11], msg[12]]) as usize;
                        let data = &msg[13..];
                        let pos = outstanding.iter().position(|r| *r == (i, b, data.len()));
                        // (an answer may overtake the Have for its piece: the request for a not-yet-advertised piece is answered
                        // rightly when the client has completed that piece by the time it handles the request; what counts
                        // is that the verified piece file exists at this moment)
                        let owned = i < n && std::fs::read(hexname(&hashes[i])).map(|d| sha1(&d) == hashes[i]).unwrap_or(false);
                        let good = pos.is_some() && owned && b + data.len() <= pieces[i].len() && data == &pieces[i][b..b + data.len()];
                        if let Some(k) = pos {
                            outstanding.remove(k);
                        }
                        if good {
                            sh.up_ok += 1;
                        } else {
                            sh.up_bad += 1;
                        }
                        if !they_unchoked {
                            sh.up_choked += 1;
                        }
                    }
                }
                6 => {
                    let i = u32::from_be_bytes([msg[5], msg[6], msg[7], msg[8]]) as usize;
                    let b = u32::from_be_bytes([msg[9], msg[10], msg[11], msg[12]]) as usize;
                    let l = u32::from_be_bytes([msg[13], msg[14], msg[15], msg[16]]) as usize;
                    if !(unchoked_them && i < n && have[i] && b + l <= pieces[i].len()) {
                        shared.lock().unwrap().protocol_oddities += 1;
                        continue;
                    }
                    if behaviour == "holdleave" {
                        continue;
                    }
                    blocks += 1;
                    if behaviour == "swap" {
                        // answer two pipelined requests of equal length with each other's bytes, the later one first
                        match held.take() {
                            None => {
                                held = Some((i, b, l));
                                continue;
                            }
                            Some((i0, b0, l0)) => {
                                let (d_first, d_second) = if l0 == l && i0 == i {
                                    (pieces[i0][b0..b0 + l0].to_vec(), pieces[i][b..b + l].to_vec())
                                } else {
                                    (pieces[i][b..b + l].to_vec(), pieces[i0][b0..b0 + l0].to_vec())
                                };
                                for (ii, bb, dd) in [(i, b, d_first), (i0, b0, d_second)] {
                                    let mut p = (ii as u32).to_be_bytes().to_vec();
                                    p.extend_from_slice(&(bb as u32).to_be_bytes());
                                    p.extend_from_slice(&dd);
                                    shared.lock().unwrap().blocks_served += 1;
                                    if !write_chunked(&mut io, &frame(7, &p), &mut rng, slow).await {
                                        return;
                                    }
                                }
                                continue;
                            }
                        }
                    }
                    if chokelast && b + l == pieces[i].len() {
                        unchoked_them = false;
                        unchoke_again_at = Some(tokio::time::Instant::now() + Duration::from_millis(200));
                        if !write_chunked(&mut io, &frame(0, &[]), &mut rng, slow).await {
                            return;
                        }
                    }
                    let mut data = pieces[i][b..b + l].to_vec();
                    if behaviour == "corrupt" && arg > 0 && blocks % arg == 0 && !data.is_empty() {
                        data[0] ^= 0x55;
                    }
                    let mut p = (i as u32).to_be_bytes().to_vec();
                    p.extend_from_slice(&(b as u32).to_be_bytes());
                    p.extend_from_slice(&data);
                    shared.lock().unwrap().blocks_served += 1;
                    if behaviour == "wrongoffset" && arg > 0 && blocks % arg == 0 {
                        // the same bytes announced for another offset / another piece: must not be accepted
                        let mut q = (((i + 1) % n.max(1)) as u32).to_be_bytes().to_vec();
                        q.extend_from_slice(&((b + 1) as u32).to_be_bytes());
                        q.extend_from_slice(&p[8..]);
                        if !write_chunked(&mut io, &frame(7, &q), &mut rng, slow).await {
                            return;
                        }
                    }
                    if !write_chunked(&mut io, &frame(7, &p), &mut rng, slow).await {
                        return;
                    }
                    if behaviour == "dup" && !write_chunked(&mut io, &frame(7, &p), &mut rng, slow).await {
                        return;
                    }
                }
                _ => (),
            }
            if leech && they_unchoked {
                for i in std::mem::take(&mut wanted) {
                    let mut b = 0;
                    while b < pieces[i].len() {
                        let l = std::cmp::min(16384, pieces[i].len() - b);
                        let mut p = (i as u32).to_be_bytes().to_vec();
                        p.extend_from_slice(&(b as u32).to_be_bytes());
                        p.extend_from_slice(&(l as u32).to_be_bytes());
                        outstanding.push((i, b, l));
                        if !write_chunked(&mut io, &frame(6, &p), &mut rng, slow).await {
                            return;
                        }
                        b += l;
                    }
                    if arg > 0 && !asked_unowned {
                        if let Some(j) = (0..n).find(|j| !advertised[*j]) {
                            asked_unowned = true;
                            let mut p = (j as u32).to_be_bytes().to_vec();
                            p.extend_from_slice(&0u32.to_be_bytes());
                            p.extend_from_slice(&(std::cmp::min(16384, pieces[j].len()) as u32).to_be_bytes());
                            outstanding.push((j, 0, std::cmp::min(16384, pieces[j].len())));
                            if !write_chunked(&mut io, &frame(6, &p), &mut rng, slow).await {
                                return;
                            }
                        }
                    }
                }
            }
            if behaviour == "dropafter" && msgs >= arg {
                let _ = io.shutdown().await;
                return;
            }
            if behaviour == "garbage" && msgs >= arg {
                let _ = io.write_all(&[0xff, 0xff, 0xff, 0xff, 7, 1, 2, 3]).await;
                tokio::time::sleep(Duration::from_secs(1)).await;
                return;
            }
        }
        // a peer that follows the protocol sends a keep-alive when it has been quiet for a while
        tokio::select! {
            r = io.read(&mut tmp) => match r {
                Ok(0) | Err(_) => return,
                Ok(k) => buf.extend_from_slice(&tmp[..k]),
            },
            _ = tokio::time::sleep(Duration::from_secs(100)) => {
                if io.write_all(&[0, 0, 0, 0]).await.is_err() {
                    return;
                }
            }
            _ = tokio::time::sleep_until(leave_at) => {
                let _ = io.shutdown().await;
                return;
            }
            _ = tokio::time::sleep_until(unchoke_at), if spontaneous && announced && !unchoked_them => {
                unchoked_them = true;
                if !write_chunked(&mut io, &frame(1, &[]), &mut rng, slow).await {
                    return;
                }
            }
            _ = tokio::time::sleep_until(unchoke_again_at.unwrap_or(leave_at)), if unchoke_again_at.is_some() => {
                unchoke_again_at = None;
                unchoked_them = true;
                if !write_chunked(&mut io, &frame(1, &[]), &mut rng, slow).await {
                    return;
                }
            }
            _ = tokio::time::sleep_until(have_at), if !announced => {
                announced = true;
                for (i, h) in have.iter().enumerate() {
                    if *h && !write_chunked(&mut io, &frame(4, &(i as u32).to_be_bytes()), &mut rng, slow).await {
                        return;
                    }
                }
            }
        }
    }
}

async fn run_case(line: &str, scratch: &std::path::Path) -> String {
    let mut parts = line.split(';');
    let head: Vec<&str> = parts.next().unwrap().split_whitespace().collect();
    assert_eq!(head[0], "sys");
    let seed: u64 = head[1].parse().unwrap();
    let pl: usize = head[2].parse().unwrap();
    let flens: Vec<usize> = head[3].split(',').map(|x| x.parse().unwrap()).collect();
    let total: usize = flens.iter().sum();
    let content = prand(seed, total);
    let n = (total + pl - 1) / pl;
    let pieces: Vec<Vec<u8>> = (0..n).map(|i| content[i * pl..std::cmp::min((i + 1) * pl, total)].to_vec()).collect();
    let hashes: Vec<[u8; 20]> = pieces.iter().map(|p| sha1(p)).collect();
    let mut doc2 = b"d8:announce19:http://127.0.0.1:1/4:infod5:filesl".to_vec();
    for (k, l) in flens.iter().enumerate() {
        doc2.extend_from_slice(format!("d6:lengthi{}e4:path7:f{:02}.date", l, k).as_bytes());
    }
    doc2.extend_from_slice(format!("e4:name3:out12:piece lengthi{}e6:pieces{}:", pl, 20 * n).as_bytes());
    for h in &hashes {
        doc2.extend_from_slice(h);
    }
    doc2.extend_from_slice(b"ee");
    let metainfo = match Metainfo::from_bencode(&doc2) {
        Ok(m) => m,
        Err(_) => return "BADTORRENT".to_string(),
    };
    let info_hash = *metainfo.info_hash();
    let _ = std::fs::remove_dir_all(scratch);
    std::fs::create_dir_all(scratch).unwrap();
    std::env::set_current_dir(scratch).unwrap();

    let mut session = Session::new(metainfo.clone(), *b"XXXXXXXXXXXXXXXXXXXX");
    session.verif_record_spawns();
    let shared = Arc::new(Mutex::new(Shared::default()));
    let pieces = Arc::new(pieces);
    let hashes_a = Arc::new(hashes.clone());
    let mut tasks = vec![];
    let mut remotes = vec![];
    for (k, spec) in parts.enumerate() {
        let t: Vec<&str> = spec.split_whitespace().collect();
        if t.is_empty() {
            continue;
        }
        assert_eq!(t[0], "peer");
        let have: Vec<bool> = t[1].chars().map(|c| c == '1').collect();
        let behaviour = t[2].to_string();
        let arg: usize = t.get(3).map(|x| x.parse().unwrap()).unwrap_or(0);
        let addr = format!("10.0.0.{}:6881", k + 1);
        session.verif_add_peer(&addr, None);
        let mut handler = PeerHandler::new(addr, *b"XXXXXXXXXXXXXXXXXXXX", None, info_hash, n, session.verif_peer_tx(), session.verif_subscribe());
        let (a, b) = tokio::io::duplex(1 << 22);
        tasks.push(tokio::spawn(async move { handler.verif_run_mem(a).await }));
        remotes.push(tokio::spawn(remote_peer(b, have, behaviour, arg, pieces.clone(), hashes_a.clone(), shared.clone(), seed * 31 + k as u64, info_hash)));
    }
    // the manager's event loop (peer commands only), until everything is Have or nothing moves any more
    let mut manager_error = "-".to_string();
    let mut spawned: Vec<&'static str> = vec![];
    let mut idle_rounds = 0;
    let mut rounds = 0usize;
    let t0 = tokio::time::Instant::now();
    loop {
        rounds += 1;
        match tokio::time::timeout(Duration::from_millis(500), session.verif_pump_peer()).await {
            Ok(Some(Ok(_))) => idle_rounds = 0,
            Ok(Some(Err(_))) => {
                manager_error = "ERR".to_string();
                break;
            }
            Ok(None) => break,
            Err(_) => idle_rounds += 1,
        }
        spawned.extend(session.verif_take_spawned());
        let all_have = session.verif_statuses().iter().all(|s| *s == Status::Have);
        if all_have && idle_rounds > 3 {
            break;
        }
        // nothing for 20 virtual minutes (keep-alive timeouts are 6 minutes): give up
        if idle_rounds > 2400 || rounds > 2_000_000 {
            break;
        }
    }
    let elapsed = t0.elapsed().as_secs();
    let statuses: Vec<String> = session.verif_statuses().iter().map(|s| match s { Status::Have => "H".to_string(), Status::Missing => "M".to_string(), Status::Reserved(k) => format!("R{}", k) }).collect();
    let all_have = session.verif_statuses().iter().all(|s| *s == Status::Have);
    let mut task_panics = 0;
    for t in tasks {
        t.abort();
        if let Err(e) = t.await {
            if e.is_panic() {
                task_panics += 1;
            }
        }
    }
    for r in remotes {
        r.abort();
    }
    // C01: every piece file is verified data the torrent lists; Have implies a file
    let mut bad_files = 0;
    let mut files = 0;
    if let Ok(rd) = std::fs::read_dir(".") {
        for e in rd.flatten() {
            let name = e.file_name().to_string_lossy().to_string();
            if name.ends_with(".piece") {
                files += 1;
                let data = std::fs::read(&name).unwrap_or_default();
                let h = sha1(&data);
                if hexname(&h) != name || !hashes.contains(&h) {
                    bad_files += 1;
                }
            }
        }
    }
    let mut have_without_file = 0;
    for (i, s) in session.verif_statuses().iter().enumerate() {
        if *s == Status::Have && !std::path::Path::new(&hexname(&hashes[i])).exists() {
            have_without_file += 1;
        }
    }
    // C02: extraction of the completed download equals the original
    let mut extracted = "-".to_string();
    if all_have {
        let (tx, mut rx) = tokio::sync::mpsc::channel::<ExtractorCmd>(2);
        let mut ex = Extractor::new(metainfo.clone(), tx);
        ex.run().await;
        let ok = matches!(rx.recv().await, Some(ExtractorCmd::Done));
        let mut same = ok;
        let mut off = 0;
        for (k, l) in flens.iter().enumerate() {
            let p = if flens.len() > 1 { format!("out/f{:02}.dat", k) } else { format!("f{:02}.dat", k) };
            match std::fs::read(&p) {
                Ok(d) => same = same && d == content[off..off + l],
                Err(_) => same = false,
            }
            off += l;
        }
        extracted = if same { "SAME".to_string() } else { "DIFF".to_string() };
    }
    let sh = shared.lock().unwrap();
    format!(
        "allhave={} st={} extracted={} spawned={} mgr={} taskpanics={} files={} badfiles={} havenofile={} adverts={} earlyadverts={} served={} odd={} upok={} upbad={} upchoked={} secs={}",
        if all_have { 1 } else { 0 },
        statuses.join(","),
        extracted,
        if spawned.is_empty() { "-".to_string() } else { spawned.join(",") },
        manager_error,
        task_panics,
        files,
        bad_files,
        have_without_file,
        sh.adverts,
        sh.early_adverts,
        sh.blocks_served,
        sh.protocol_oddities,
        sh.up_ok,
        sh.up_bad,
        sh.up_choked,
        elapsed
    )
}

pub fn run(lines: &[String]) {
    let home = std::env::current_dir().unwrap();
    let scratch = std::env::temp_dir().join(format!("rdest-verif-sys-{}", std::process::id()));
    for line in lines {
        let rt = tokio::runtime::Builder::new_current_thread().enable_all().start_paused(true).build().unwrap();
        let r = guarded(|| rt.block_on(run_case(line, &scratch)));
        std::env::set_current_dir(&home).unwrap();
        match r {
            Some(s) => println!("{}", s),
            None => println!("MANAGERPANIC"),
        }
        drop(rt);
    }
    let _ = std::fs::remove_dir_all(&scratch);
}
