//! Correspondence harness: runs rdest (built from /repo's working tree with the
//! `verif` feature) on case files and prints one canonical result line per case.
mod bc;
mod c06;
mod c07;
mod ext;
mod hnd;
mod meta;
mod mgr;
mod stats;
mod sys;
mod url;
mod util;

fn main() {
    let args: Vec<String> = std::env::args().collect();
    if args.len() < 3 {
        eprintln!("usage: harness <property> <case file>");
        std::process::exit(2);
    }
    util::silence_panics();
    let lines = util::read_lines(&args[2]);
    match args[1].as_str() {
        "c07" => c07::run(&lines),
        "bc" => bc::run(&lines),
        "meta" => meta::run(&lines),
        "resp" => meta::run_resp(&lines),
        "ext" => ext::run(&lines),
        "mgr" => mgr::run(&lines),
        "hnd" => hnd::run(&lines),
        "conn" => c06::run(&lines),
        "url" => url::run(&lines),
        "sys" => sys::run(&lines),
        "stats" => stats::run(&lines),
        other => {
            eprintln!("unknown property {}", other);
            std::process::exit(2);
        }
    }
}
