(* C11 — the client never advertises a piece it has not verified. *)
From Rdest Require Import Base Consts Wire Manager MgrProofs Handler HandlerProofs TraceProofs.
Open Scope N_scope.

(* the bitfield the manager hands to a connection marks exactly the pieces that are Have at that moment,
   and that is what the task writes after the handshake (C11_actions, Bitfield case) *)
Theorem C11_bitfield : forall m a id pick m' r bc sp, mstep m (CInit a id) pick = Ok (m', r, bc, sp) ->
  r = RBitfield (map is_have (m_status m)) /\ bc = [].
Proof. exact init_bitfield. Qed.

(* a SendHave broadcast for piece i happens only when a connection reports piece i done (hash-verified and
   stored, C01), and i is Have from then on *)
Theorem C11_broadcast : forall m c pick m' r bc sp i, mstep m c pick = Ok (m', r, bc, sp) -> In (BHave i) bc ->
  exists a p, c = CPieceDone a /\ pget (m_peers m) a = Some p /\ p_piece_index p = Some i /\ have_at (m_status m') (N.to_nat i).
Proof. exact have_broadcast_only_when_done. Qed.
(* and conversely: a piece that becomes owned is broadcast in the same step (no owned piece goes unannounced to the
   established connections) *)
Theorem C11_owned_is_broadcast : forall m c pick m' r bc sp i,
  mstep m c pick = Ok (m', r, bc, sp) -> ~ have_at (m_status m) i -> have_at (m_status m') i -> In (BHave (N.of_nat i)) bc.
Proof. exact newly_owned_is_broadcast. Qed.
Theorem C11_have_stays : forall m c pick m' r bc sp i, mstep m c pick = Ok (m', r, bc, sp) ->
  have_at (m_status m) i -> have_at (m_status m') i.
Proof. exact have_absorbing. Qed.

(* on a connection, a Have frame is written only for a broadcast being processed or for one held back earlier;
   a Bitfield frame is exactly the manager's answer *)
Theorem C11_actions : forall sha1 cf disk ovf s ev r,
  forallb (act_ok sha1 cf s ev r) (acts_of (hstep sha1 cf disk ovf s ev r)) = true.
Proof. intros. apply actions_ok. reflexivity. Qed.

(* announcements are held back while the peer chokes us and all delivered, in completion order, when it unchokes *)
Theorem C11_held_back : forall sha1 cf disk ovf s i r, h_choked s = true -> h_rx s = None ->
  hstep sha1 cf disk ovf s (EBroadHave i) r = HCont (set_buff s (h_msg_buff s ++ [i])) [].
Proof. exact have_buffered_while_choked. Qed.
Theorem C11_sent_at_once : forall sha1 cf disk ovf s i r, h_choked s = false -> h_rx s = None ->
  hstep sha1 cf disk ovf s (EBroadHave i) r = HCont s [ASend (Wire.Have i)].
Proof. exact have_sent_when_unchoked. Qed.
Theorem C11_flush : forall sha1 cf disk ovf s r o, h_hs_done s = true -> h_choked s = true ->
  hstep sha1 cf disk ovf s (EFrame Unchoke) r = o ->
  exists rest, acts_of o = map (fun i => ASend (Wire.Have i)) (h_msg_buff s) ++ ACmd KUnchoke :: rest /\
               match out_state o with Some s' => h_msg_buff s' = [] | None => True end.
Proof. exact unchoke_flushes. Qed.

Print Assumptions C11_bitfield.
Print Assumptions C11_broadcast.
Print Assumptions C11_have_stays.
Print Assumptions C11_actions.
Print Assumptions C11_held_back.
Print Assumptions C11_sent_at_once.
Print Assumptions C11_flush.
Print Assumptions C11_owned_is_broadcast.

(* OVER WHOLE RUNS of one connection task, from its start: the Have frames written so far, followed by what is still
   held back, are exactly the completions broadcast so far, in order -- nothing lost, duplicated or reordered -- and
   nothing is held back while the peer does not choke us (so an unchoke delivers them all) *)
Theorem C11_announcements_complete : forall sha1 cf disk ovf evs pid s' acts,
  run_acts sha1 cf disk ovf (h_init pid) evs = Some (s', acts) ->
  haves_sent acts ++ h_msg_buff s' = flat_map (fun e => bhave_of (fst e)) evs /\ (h_choked s' = false -> h_msg_buff s' = []).
Proof. exact announcements_complete. Qed.
Print Assumptions C11_announcements_complete.
